package bsonkit

import "github.com/256dpi/lungo/internal/vf"

// C12: Compare is antisymmetric with range {-1,0,1}, reflexive.
func H_C12_antisym() {
	tags := uint32(vf.Param("tags", vf.TScalars))
	depth := vf.Param("depth", 0)
	a := vf.Value("a", "a,b", 2, tags, depth)
	b := vf.Value("b", "a,b", 2, tags, depth)
	ab := Compare(a, b)
	ba := Compare(b, a)
	vf.Observe("ab", int64(ab))
	vf.Assert(ab == -1 || ab == 0 || ab == 1, "Compare result outside {-1,0,1}")
	vf.Assert(ab == -ba, "Compare(a,b) != -Compare(b,a)")
	vf.Assert(Compare(a, a) == 0, "Compare(a,a) != 0")
}
