package bsonkit

import (
	"go.mongodb.org/mongo-driver/bson"
	"go.mongodb.org/mongo-driver/bson/primitive"

	"github.com/256dpi/lungo/internal/vf"
)

// rank is the MongoDB comparison order of type classes, written from the manual
// (null < numbers < strings < documents < arrays < binary < ObjectId < bool < date < timestamp < regex).
func rankOf(v interface{}) int {
	switch v.(type) {
	case nil:
		return 0
	case int32, int64, float64:
		return 1
	case string:
		return 2
	case bson.D:
		return 3
	case bson.A:
		return 4
	case primitive.Binary:
		return 5
	case primitive.ObjectID:
		return 6
	case bool:
		return 7
	case primitive.DateTime:
		return 8
	case primitive.Timestamp:
		return 9
	case primitive.Regex:
		return 10
	}
	return -1
}

// C12: Compare is antisymmetric with range {-1,0,1} and reflexive.
func H_C12_antisym() {
	tags := uint32(vf.Param("tags", vf.TScalars))
	depth := vf.Param("depth", 0)
	a := vf.Value("a", "a,b", 2, tags, depth)
	b := vf.Value("b", "a,b", 2, tags, depth)
	ab := Compare(a, b)
	ba := Compare(b, a)
	vf.Observe("ab", int64(ab))
	vf.Assert(ab == -1 || ab == 0 || ab == 1, "Compare result outside {-1,0,1}")
	vf.Assert(ab == -ba, "Compare(a,b) != -Compare(b,a)")
	vf.Assert(Compare(a, a) == 0, "Compare(a,a) != 0")
	vf.Assert(Compare(b, b) == 0, "Compare(b,b) != 0")
}

// C12: values of different type classes are ordered by the MongoDB class order.
func H_C12_class() {
	tags := uint32(vf.Param("tags", vf.TAll))
	depth := vf.Param("depth", 1)
	a := vf.Value("a", "a,b", 2, tags, depth)
	b := vf.Value("b", "a,b", 2, tags, depth)
	ra, rb := rankOf(a), rankOf(b)
	vf.Assume(ra != rb)
	ab := Compare(a, b)
	vf.Observe("ab", int64(ab))
	if ra < rb {
		vf.Assert(ab == -1, "lower class does not compare lower")
	} else {
		vf.Assert(ab == 1, "higher class does not compare higher")
	}
}

// C12: numbers of all (non-decimal) numeric types are ordered by exact mathematical value, NaN lowest.
func H_C12_exact() {
	a := vf.Value("a", "", 0, vf.TNumbers, 0)
	b := vf.Value("b", "", 0, vf.TNumbers, 0)
	ab := Compare(a, b)
	vf.Observe("ab", int64(ab))
	vf.Assert(ab == vf.ExactCmp(a, b), "Compare differs from the exact mathematical order")
}

// C12: transitivity and congruence on triples.
func H_C12_trans() {
	tags := uint32(vf.Param("tags", vf.TScalars))
	depth := vf.Param("depth", 0)
	a := vf.Value("a", "a,b", 2, tags, depth)
	b := vf.Value("b", "a,b", 2, tags, depth)
	c := vf.Value("c", "a,b", 2, tags, depth)
	ab := Compare(a, b)
	bc := Compare(b, c)
	ac := Compare(a, c)
	vf.Observe("ab", int64(ab))
	vf.Observe("bc", int64(bc))
	vf.Observe("ac", int64(ac))
	if ab <= 0 && bc <= 0 {
		vf.Assert(ac <= 0, "not transitive: a<=b, b<=c but a>c")
	}
	if ab < 0 && bc <= 0 || ab <= 0 && bc < 0 {
		vf.Assert(ac < 0, "not transitive: a<b<=c or a<=b<c but not a<c")
	}
	if ab == 0 {
		vf.Assert(ac == bc, "equal values are not interchangeable")
	}
}

// Lemma used by the engine (DESIGN.md section 2.9): Clone / cloneValue / ConvertValue return a value
// that is bit-identical to their argument and shares no mutable memory with it (Binary data excepted,
// as documented). The engine defers clones of still-undecided values and treats such a clone as equal
// to its source; this harness checks that on the real code in every run that relies on it.
func H_LEM_clone() {
	tags := uint32(vf.Param("tags", vf.TAll))
	d := vf.Doc("d", "a", 2, tags, vf.Param("depth", 2))
	c := Clone(&d)
	vf.Assert(vf.EqualValues(*c, d), "Clone changed a value")
	cv, err := ConvertValue(d)
	vf.Assert(err == nil, "ConvertValue failed on a supported value")
	vf.Assert(vf.EqualValues(cv, d), "ConvertValue changed a value")
}

// second half of the lemma: the clone shares no mutable memory with its source (binary payloads are
// the documented exception and are left out of the domain here)
func H_LEM_clone_fresh() {
	tags := uint32(vf.Param("tags", vf.TAll&^vf.TBinary))
	d := vf.Doc("d", "a", 2, tags, vf.Param("depth", 2))
	c := Clone(&d)
	vf.Assert(!vf.Shares(c, &d), "Clone shares memory with its argument")
	cv, _ := ConvertValue(d)
	vf.Assert(!vf.Shares(cv, d), "ConvertValue shares memory with its argument")
}
