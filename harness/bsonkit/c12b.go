package bsonkit

import (
	"go.mongodb.org/mongo-driver/bson"

	"github.com/256dpi/lungo/internal/vf"
)

func sign(x int) int {
	if x < 0 {
		return -1
	}
	if x > 0 {
		return 1
	}
	return 0
}

func strCmp(a, b string) int {
	if a < b {
		return -1
	}
	if a > b {
		return 1
	}
	return 0
}

// refCmpContainer is MongoDB's order of arrays and documents written from the manual: element by
// element (documents: key, then value), the first difference decides; a proper prefix is smaller.
// Elements are scalars here and are compared with Compare (whose scalar order H_C12_exact/class check).
func refCmpContainer(a, b interface{}) int {
	switch x := a.(type) {
	case bson.A:
		y := b.(bson.A)
		for i := 0; i < len(x) && i < len(y); i++ {
			if c := Compare(x[i], y[i]); c != 0 {
				return sign(c)
			}
		}
		return sign(len(x) - len(y))
	case bson.D:
		y := b.(bson.D)
		for i := 0; i < len(x) && i < len(y); i++ {
			if c := strCmp(x[i].Key, y[i].Key); c != 0 {
				return c
			}
			if c := Compare(x[i].Value, y[i].Value); c != 0 {
				return sign(c)
			}
		}
		return sign(len(x) - len(y))
	}
	return 0
}

// C12: arrays and documents are ordered element-wise (first difference decides, prefix is smaller).
func H_C12_containers() {
	tags := uint32(vf.Param("tags", vf.TArray|vf.TDoc)) | vf.Child(uint32(vf.Param("ctags", vf.TNull|vf.TInt32|vf.TString)))
	a := vf.Value("a", "a,b", vf.Param("maxlen", 2), tags, 1)
	b := vf.Value("b", "a,b", vf.Param("maxlen", 2), tags, 1)
	_, aArr := a.(bson.A)
	_, bArr := b.(bson.A)
	vf.Assume(aArr == bArr)
	got := Compare(a, b)
	vf.Observe("got", int64(got))
	vf.Assert(got == refCmpContainer(a, b), "containers are not ordered element by element")
}
