package bsonkit

import "github.com/256dpi/lungo/internal/vf"

func init() { vf.MissingValue = Missing }
