// Package vf is the harness API. The symbolic engine (gosym) intercepts every function of this
// package; this file is the NATIVE implementation used when a harness is compiled by the Go compiler
// to replay a solver model against the real code: nondeterministic inputs are read from a script.
package vf

import (
	"encoding/json"
	"fmt"
	"math"
	"math/big"
	"os"
	"reflect"
	"runtime/debug"
	"sort"
	"strconv"
	"strings"
	"sync"
	"unsafe"

	"go.mongodb.org/mongo-driver/bson/primitive"
)

// Tag bits of the symbolic BSON domain.
const (
	TNull = 1 << iota
	TInt32
	TInt64
	TDouble
	TString
	TBool
	TDate
	TTimestamp
	TObjectID
	TBinary
	TRegex
	TArray
	TDoc
	TMissing
	TFlatArr // modifier: elements of arrays are never arrays themselves
)

const (
	TNumbers = TInt32 | TInt64 | TDouble
	TScalars = TNull | TInt32 | TInt64 | TDouble | TString | TBool | TDate | TTimestamp | TObjectID | TBinary | TRegex
	TAll     = TScalars | TArray | TDoc
)

// MissingValue is set by package bsonkit's harness glue so vf can produce bsonkit.Missing.
var MissingValue interface{}

type Script struct {
	Harness string            `json:"harness"`
	Values  map[string]string `json:"values"`
	Params  map[string]int    `json:"params"`
	StrPool []string          `json:"strpool"`
	Expect  string            `json:"expect"`
}

var cur *Script
var observed []string
var mu sync.Mutex

type assumeFailed struct{}
type assertFailed struct{ msg string }

func bits(id string) uint64 {
	if cur == nil {
		return 0
	}
	s, ok := cur.Values[id]
	if !ok {
		return 0
	}
	u, _ := strconv.ParseUint(s, 10, 64)
	return u
}

func Int64(id string) int64     { return int64(bits(id)) }
func Int(id string) int         { return int(int64(bits(id))) }
func Int32(id string) int32     { return int32(uint32(bits(id))) }
func Uint32(id string) uint32   { return uint32(bits(id)) }
func Uint8(id string) uint8     { return uint8(bits(id)) }
func Float64(id string) float64 { return math.Float64frombits(bits(id)) }
func Bool(id string) bool       { return bits(id) != 0 }

func Choice(id string, n int) int {
	if n <= 1 {
		return 0
	}
	k := int(bits(id))
	if k >= n {
		panic(assumeFailed{})
	}
	return k
}

func splitKeep(s string) []string { return strings.Split(s, ",") }

func String(id string, pool string) string {
	p := splitKeep(pool)
	return p[Choice(id, len(p))]
}

func strPool() []string {
	if cur != nil && cur.StrPool != nil {
		return cur.StrPool
	}
	return []string{"", "a", "b"}
}

func tagList(tags uint32, depth int) []int {
	var r []int
	for i := 0; i < 14; i++ {
		if tags&(1<<uint(i)) == 0 {
			continue
		}
		if depth <= 0 && (1<<uint(i) == TArray || 1<<uint(i) == TDoc) {
			continue
		}
		r = append(r, i)
	}
	return r
}

func keysOf(keys string) []string {
	if keys == "" {
		return nil
	}
	return strings.Split(keys, ",")
}

// Value returns an arbitrary BSON value with a dynamic type from tags, containers nested up to depth.
func Value(id string, keys string, maxLen int, tags uint32, depth int) interface{} {
	return value(id, keysOf(keys), maxLen, tags, depth)
}

func value(id string, keys []string, maxLen int, tags uint32, depth int) interface{} {
	tl := tagList(tags, depth)
	if len(tl) == 0 {
		panic(assumeFailed{})
	}
	tag := tl[Choice(id+".tag", len(tl))]
	ctags := childTags(tags)
	switch 1 << uint(tag) {
	case TNull:
		return nil
	case TInt32:
		return Int32(id + ".i32")
	case TInt64:
		return Int64(id + ".i64")
	case TDouble:
		return Float64(id + ".f64")
	case TBool:
		return Bool(id + ".b")
	case TDate:
		return primitive.DateTime(Int64(id + ".dt"))
	case TString:
		p := strPool()
		return p[Choice(id+".s", len(p))]
	case TTimestamp:
		return primitive.Timestamp{T: Uint32(id + ".tsT"), I: Uint32(id + ".tsI")}
	case TObjectID:
		var o primitive.ObjectID
		o[0] = Uint8(id + ".oid0")
		o[11] = Uint8(id + ".oid11")
		return o
	case TBinary:
		n := Choice(id+".binlen", 3)
		d := make([]byte, n)
		for i := range d {
			d[i] = Uint8(fmt.Sprintf("%s.bin%d", id, i))
		}
		return primitive.Binary{Subtype: Uint8(id + ".binsub"), Data: d}
	case TRegex:
		p := []string{"a", "b"}[Choice(id+".rxp", 2)]
		o := []string{"", "i"}[Choice(id+".rxo", 2)]
		return primitive.Regex{Pattern: p, Options: o}
	case TMissing:
		return MissingValue
	case TArray:
		n := Choice(id+".len", maxLen+1)
		a := make(primitive.A, n)
		etags := ctags
		if tags&TFlatArr != 0 {
			etags &^= TArray
		}
		for i := range a {
			a[i] = value(fmt.Sprintf("%s[%d]", id, i), keys, maxLen, etags, depth-1)
		}
		return a
	case TDoc:
		return doc(id, keys, maxLen, ctags, depth-1)
	}
	panic("tag")
}

// Doc returns an arbitrary document with at most maxLen fields, distinct keys from the pool, values
// per tags with containers nested up to depth.
func Doc(id string, keys string, maxLen int, tags uint32, depth int) primitive.D {
	// the fields of a top-level document use the top-level tag mask; values nested in them the child mask
	return doc(id, keysOf(keys), maxLen, tags&^TMissing, depth)
}

func doc(id string, keys []string, maxLen int, tags uint32, depth int) primitive.D {
	fields := maxLen
	if fields > len(keys) {
		fields = len(keys)
	}
	n := Choice(id+".len", fields+1)
	d := make(primitive.D, n)
	rest := append([]string{}, keys...)
	for i := range d {
		k := Choice(fmt.Sprintf("%s.k%d", id, i), len(rest))
		key := rest[k]
		rest = append(rest[:k], rest[k+1:]...)
		d[i] = primitive.E{Key: key, Value: value(id+"."+key, keys, maxLen, tags, depth)}
	}
	return d
}

func Assume(b bool) {
	if !b {
		panic(assumeFailed{})
	}
}

func Assert(b bool, msg string) {
	if !b {
		panic(assertFailed{msg})
	}
}

func Fail(msg string)       { panic(assertFailed{msg}) }
func Reach(label string)    {}
func Symbolic() bool        { return false }
func Register(string, func()) {}

func Observe(tag string, v int64) {
	mu.Lock()
	observed = append(observed, fmt.Sprintf("%s=%d", tag, uint64(v)))
	mu.Unlock()
}

func ObserveBool(tag string, b bool) {
	v := int64(0)
	if b {
		v = 1
	}
	Observe(tag, v)
}

func Param(name string, def int) int {
	if cur != nil {
		if v, ok := cur.Params[name]; ok {
			return v
		}
	}
	return def
}

// SameFloat is bit equality of doubles with all NaNs identified.
func SameFloat(a, b float64) bool {
	return math.Float64bits(a) == math.Float64bits(b) || (a != a && b != b)
}

// EqualValues is bit-level structural equality of two BSON values (documents, arrays, scalars).
func EqualValues(a, b interface{}) bool {
	if a == nil || b == nil {
		return a == nil && b == nil
	}
	va, vb := reflect.ValueOf(a), reflect.ValueOf(b)
	if va.Type() != vb.Type() {
		return false
	}
	switch x := a.(type) {
	case float64:
		return SameFloat(x, b.(float64))
	case primitive.D:
		y := b.(primitive.D)
		if len(x) != len(y) {
			return false
		}
		for i := range x {
			if x[i].Key != y[i].Key || !EqualValues(x[i].Value, y[i].Value) {
				return false
			}
		}
		return true
	case *primitive.D:
		y := b.(*primitive.D)
		if x == nil || y == nil {
			return x == y
		}
		return EqualValues(*x, *y)
	case primitive.A:
		y := b.(primitive.A)
		if len(x) != len(y) {
			return false
		}
		for i := range x {
			if !EqualValues(x[i], y[i]) {
				return false
			}
		}
		return true
	case primitive.Binary:
		y := b.(primitive.Binary)
		return x.Subtype == y.Subtype && string(x.Data) == string(y.Data)
	}
	return reflect.DeepEqual(a, b)
}

// ExactCmp compares two numbers (int32, int64, float64) by exact mathematical value; NaN lowest.
func ExactCmp(a, b interface{}) int {
	an, bn := isNaN(a), isNaN(b)
	switch {
	case an && bn:
		return 0
	case an:
		return -1
	case bn:
		return 1
	}
	return bigOf(a).Cmp(bigOf(b))
}

func bigOf(v interface{}) *big.Float {
	f := new(big.Float).SetPrec(256)
	switch x := v.(type) {
	case int32:
		return f.SetInt64(int64(x))
	case int64:
		return f.SetInt64(x)
	case float64:
		if math.IsInf(x, 0) {
			return f.SetInf(x < 0)
		}
		return f.SetFloat64(x)
	}
	panic("ExactCmp: not a number")
}

func isNaN(v interface{}) bool {
	f, ok := v.(float64)
	return ok && f != f
}

// ---------- freeze (native: snapshot now, compare at CheckFrozen) ----------

type frozenRoot struct {
	root interface{}
	dump string
	why  string
}

var frozenRoots []frozenRoot

func Freeze(root interface{}, why string) {
	frozenRoots = append(frozenRoots, frozenRoot{root, dump(root), why})
}

func Unfreeze() { CheckFrozen(); frozenRoots = nil }

// CheckFrozen fails if anything reachable from a frozen root changed since it was frozen.
func CheckFrozen() {
	for _, f := range frozenRoots {
		if d := dump(f.root); d != f.dump {
			panic(assertFailed{"frozen memory changed (" + f.why + ")"})
		}
	}
}

func dump(v interface{}) string {
	var sb strings.Builder
	dumpValue(&sb, reflect.ValueOf(v), map[uintptr]int{}, 0)
	return sb.String()
}

func dumpValue(sb *strings.Builder, v reflect.Value, seen map[uintptr]int, depth int) {
	if !v.IsValid() {
		sb.WriteString("<nil>")
		return
	}
	if depth > 60 {
		sb.WriteString("<deep>")
		return
	}
	switch v.Kind() {
	case reflect.Ptr:
		if v.IsNil() {
			sb.WriteString("nil")
			return
		}
		// pointers are dumped by what they point to; "seen" holds the pointers on the current
		// path only (cycle detection), so the text does not depend on map iteration order
		p := v.Pointer()
		if _, ok := seen[p]; ok {
			sb.WriteString("&<cycle>")
			return
		}
		seen[p] = 1
		sb.WriteString("&")
		dumpValue(sb, v.Elem(), seen, depth+1)
		delete(seen, p)
	case reflect.Interface:
		if v.IsNil() {
			sb.WriteString("nil")
			return
		}
		fmt.Fprintf(sb, "(%s)", v.Elem().Type())
		dumpValue(sb, v.Elem(), seen, depth+1)
	case reflect.Struct:
		if v.Type().PkgPath() == "sync" || v.Type().PkgPath() == "sync/atomic" {
			sb.WriteString("<sync>")
			return
		}
		sb.WriteString("{")
		for i := 0; i < v.NumField(); i++ {
			if v.Type().Field(i).Name == "isoid" && strings.Contains(v.Type().PkgPath(), "tidwall/btree") {
				// the copy-on-write generation counter of a btree header: bumped in the SOURCE tree by
				// Copy(), invisible to readers (same exemption as in the engine's freeze monitor)
				continue
			}
			dumpValue(sb, v.Field(i), seen, depth+1)
			sb.WriteString(",")
		}
		sb.WriteString("}")
	case reflect.Slice:
		if v.IsNil() {
			sb.WriteString("nil[]")
			return
		}
		fmt.Fprintf(sb, "[%d:", v.Len())
		for i := 0; i < v.Len(); i++ {
			dumpValue(sb, v.Index(i), seen, depth+1)
			sb.WriteString(",")
		}
		sb.WriteString("]")
	case reflect.Array:
		sb.WriteString("[")
		for i := 0; i < v.Len(); i++ {
			dumpValue(sb, v.Index(i), seen, depth+1)
			sb.WriteString(",")
		}
		sb.WriteString("]")
	case reflect.Map:
		if v.IsNil() {
			sb.WriteString("nilmap")
			return
		}
		var items []string
		it := v.MapRange()
		for it.Next() {
			var e strings.Builder
			// keys that are pointers are identified by what they point to
			dumpValue(&e, it.Key(), seen, depth+1)
			e.WriteString("=>")
			dumpValue(&e, it.Value(), seen, depth+1)
			items = append(items, e.String())
		}
		sort.Strings(items)
		sb.WriteString("map[" + strings.Join(items, ";") + "]")
	case reflect.Func:
		if v.IsNil() {
			sb.WriteString("nilfunc")
		} else {
			sb.WriteString("func")
		}
	case reflect.Chan, reflect.UnsafePointer:
		sb.WriteString("<chan>")
	case reflect.Float64, reflect.Float32:
		fmt.Fprintf(sb, "f%x", math.Float64bits(v.Float()))
	case reflect.Bool:
		fmt.Fprintf(sb, "%v", v.Bool())
	case reflect.Int, reflect.Int8, reflect.Int16, reflect.Int32, reflect.Int64:
		fmt.Fprintf(sb, "%d", v.Int())
	case reflect.Uint, reflect.Uint8, reflect.Uint16, reflect.Uint32, reflect.Uint64, reflect.Uintptr:
		fmt.Fprintf(sb, "%d", v.Uint())
	case reflect.String:
		fmt.Fprintf(sb, "%q", v.String())
	default:
		fmt.Fprintf(sb, "<%s>", v.Kind())
	}
}

// ---------- sharing (native: address ranges of mutable memory) ----------

type rng struct{ lo, hi uintptr }

func collect(v reflect.Value, out *[]rng, seen map[uintptr]bool, depth int) {
	if !v.IsValid() || depth > 60 {
		return
	}
	switch v.Kind() {
	case reflect.Ptr:
		if v.IsNil() {
			return
		}
		p := v.Pointer()
		if seen[p] {
			return
		}
		seen[p] = true
		sz := v.Elem().Type().Size()
		if sz > 0 {
			*out = append(*out, rng{p, p + sz})
		}
		collect(v.Elem(), out, seen, depth+1)
	case reflect.Interface:
		if !v.IsNil() {
			collect(v.Elem(), out, seen, depth+1)
		}
	case reflect.Struct:
		for i := 0; i < v.NumField(); i++ {
			collect(v.Field(i), out, seen, depth+1)
		}
	case reflect.Slice:
		if v.IsNil() || v.Len() == 0 {
			return
		}
		p := v.Pointer()
		sz := v.Type().Elem().Size() * uintptr(v.Len())
		if sz > 0 {
			*out = append(*out, rng{p, p + sz})
		}
		for i := 0; i < v.Len(); i++ {
			collect(v.Index(i), out, seen, depth+1)
		}
	case reflect.Array:
		for i := 0; i < v.Len(); i++ {
			collect(v.Index(i), out, seen, depth+1)
		}
	case reflect.Map:
		if v.IsNil() {
			return
		}
		p := v.Pointer()
		*out = append(*out, rng{p, p + 1})
		it := v.MapRange()
		for it.Next() {
			collect(it.Key(), out, seen, depth+1)
			collect(it.Value(), out, seen, depth+1)
		}
	}
}

// Shares reports whether a and b reach a common piece of mutable memory.
func Shares(a, b interface{}) bool {
	var ra, rb []rng
	collect(reflect.ValueOf(a), &ra, map[uintptr]bool{}, 0)
	collect(reflect.ValueOf(b), &rb, map[uintptr]bool{}, 0)
	for _, x := range ra {
		for _, y := range rb {
			if x.lo < y.hi && y.lo < x.hi {
				return true
			}
		}
	}
	return false
}

// Catch runs f and reports whether it panicked.
func Catch(f func()) (panicked bool, msg string) {
	defer func() {
		if r := recover(); r != nil {
			switch r.(type) {
			case assumeFailed, assertFailed:
				panic(r)
			}
			panicked = true
			msg = fmt.Sprint(r)
		}
	}()
	f()
	return false, ""
}

// ---------- concurrency (native: real goroutines; schedule from the script is advisory) ----------

var wg sync.WaitGroup

func Go(f func()) {
	wg.Add(1)
	go func() {
		defer wg.Done()
		f()
	}()
}
// TimerFires: number of one-shot timeouts that had to expire because every goroutine was blocked
// (scheduler model only; natively 0).
func TimerFires() int { return 0 }
func Yield()          {}
func WaitAll()         { wg.Wait() }
func Daemon(f func())  { f() }

// ---------- replay driver ----------

// RunScripts replays every script of the file named by VERIF_REPLAY against the harness table and
// prints one VF-RESULT line per script.
func RunScripts(fns map[string]func()) {
	path := os.Getenv("VERIF_REPLAY")
	data, err := os.ReadFile(path)
	if err != nil {
		fmt.Println("VF-ERROR cannot read", path, err)
		return
	}
	var scripts []Script
	if err := json.Unmarshal(data, &scripts); err != nil {
		fmt.Println("VF-ERROR bad script", err)
		return
	}
	for i := range scripts {
		runOne(i, &scripts[i], fns)
	}
}

func runOne(i int, s *Script, fns map[string]func()) {
	f := fns[s.Harness]
	if f == nil {
		fmt.Printf("VF-RESULT %d error unknown harness %s\n", i, s.Harness)
		return
	}
	cur = s
	observed = nil
	frozenRoots = nil
	kind, msg := "pass", ""
	func() {
		defer func() {
			if r := recover(); r != nil {
				switch e := r.(type) {
				case assumeFailed:
					kind = "assume"
				case assertFailed:
					kind, msg = "assert", e.msg
				default:
					kind, msg = "panic", fmt.Sprint(r)+" | "+firstLungoFrame(string(debug.Stack()))
				}
			}
		}()
		f()
		CheckFrozen()
	}()
	for _, o := range observed {
		fmt.Printf("VF-OBS %d %s\n", i, o)
	}
	fmt.Printf("VF-RESULT %d %s %s\n", i, kind, strings.ReplaceAll(msg, "\n", " "))
}

func firstLungoFrame(stack string) string {
	lines := strings.Split(stack, "\n")
	for _, l := range lines {
		l = strings.TrimSpace(l)
		if strings.Contains(l, "/repo/") && !strings.Contains(l, "zz_verif") && !strings.Contains(l, "internal/vf") {
			return l
		}
	}
	return ""
}

var _ = unsafe.Pointer(nil)

// RunUntilCrash runs f with crash and fault injection armed (engine only; natively f just runs).
func RunUntilCrash(f func()) bool { f(); return false }

// FS queries / seeds the engine's file-system model (engine only).
func FS(op, path string) int { panic(assumeFailed{}) }

// FSTrace returns the file-system calls made so far (engine only).
func FSTrace() string { return "" }

// Child turns a tag mask into the modifier "nested values use this mask" (to be or-ed into tags).
func Child(mask uint32) uint32 { return mask << 16 }

func childTags(tags uint32) uint32 {
	if hi := tags >> 16; hi != 0 {
		return (hi | hi<<16) &^ TMissing
	}
	return tags &^ TMissing
}
