package lungo

import (
	"go.mongodb.org/mongo-driver/bson"
	"go.mongodb.org/mongo-driver/bson/primitive"
	"go.mongodb.org/mongo-driver/mongo/options"

	"github.com/256dpi/lungo/bsonkit"
	"github.com/256dpi/lungo/internal/vf"
	"github.com/256dpi/lungo/mongokit"
)

// C01: calls through the driver-compatible API against a sequential model: a list of documents in
// insertion order plus the operator semantics of mongokit.Match / Apply (which C10 / C11 check against
// MongoDB's definitions). The pre-state is built through the API itself (0..maxdocs inserts); then one
// call with symbolic arguments is compared with the model: result counts, ids, returned documents,
// error-or-success, and the contents of the collection afterwards (Find({}) in natural order).

type model struct{ docs []bson.D }

func (m *model) match(q bson.D) []int {
	var idx []int
	for i := range m.docs {
		ok, err := mongokit.Match(&m.docs[i], &q)
		vf.Assume(err == nil)
		if ok {
			idx = append(idx, i)
		}
	}
	return idx
}

func (m *model) hasID(id interface{}) bool {
	for i := range m.docs {
		if bsonkit.Compare(bsonkit.Get(&m.docs[i], "_id"), id) == 0 {
			return true
		}
	}
	return false
}

func c01Val(id string) interface{} {
	return vf.Value(id, "", 2, uint32(vf.Param("tags", vf.TNull|vf.TInt32|vf.TString|vf.TArray))|vf.Child(vf.TInt32), 1)
}

func c01Filter(id string) bson.D {
	switch vf.Choice(id+".kind", 3) {
	case 0:
		return bson.D{}
	case 1:
		return bson.D{{Key: "_id", Value: vf.Int32(id + ".id")}}
	}
	return bson.D{{Key: "a", Value: vf.Value(id+".a", "", 0, vf.TInt32|vf.TString|vf.TNull, 0)}}
}

func allDocs(coll ICollection) []bson.D {
	cur, err := coll.Find(bg, bson.D{})
	vf.Assert(err == nil, "Find({}) failed")
	var out []bson.D
	vf.Assert(cur.All(bg, &out) == nil, "cursor.All failed")
	return out
}

func sameModel(got []bson.D, want []bson.D) bool {
	if len(got) != len(want) {
		return false
	}
	for i := range got {
		if !vf.EqualValues(got[i], want[i]) {
			return false
		}
	}
	return true
}

func H_C01_call() {
	engine, client := mkEngine()
	coll := client.Database("db").Collection("c")
	m := &model{}
	n := vf.Choice("n", vf.Param("maxdocs", 2)+1)
	for i := 0; i < n; i++ {
		d := bson.D{{Key: "_id", Value: int32(i)}}
		if vf.Bool("d" + string(rune('0'+i)) + ".hasA") {
			d = append(d, bson.E{Key: "a", Value: c01Val("d" + string(rune('0'+i)) + ".a")})
		}
		_, err := coll.InsertOne(bg, d)
		vf.Assume(err == nil)
		m.docs = append(m.docs, d)
	}
	kind := vf.Param("call", -1)
	if kind < 0 {
		kind = vf.Choice("call", 8)
	}
	switch kind {
	case 0: // InsertOne
		d := bson.D{}
		withID := vf.Bool("new.hasID")
		if withID {
			d = append(d, bson.E{Key: "_id", Value: vf.Int32("new.id")})
		}
		d = append(d, bson.E{Key: "a", Value: c01Val("new.a")})
		res, err := coll.InsertOne(bg, d)
		if withID && m.hasID(d[0].Value) {
			vf.Assert(err != nil && IsUniquenessError(err), "a duplicate _id was not rejected with a uniqueness error")
		} else {
			vf.Assert(err == nil, "InsertOne failed")
			if withID {
				vf.Assert(vf.EqualValues(res.InsertedID, d[0].Value), "InsertOne returned a different id")
				m.docs = append(m.docs, d)
			} else {
				oid, ok := res.InsertedID.(primitive.ObjectID)
				vf.Assert(ok, "a generated id is not an ObjectID")
				m.docs = append(m.docs, append(bson.D{{Key: "_id", Value: oid}}, d...))
			}
		}
	case 1: // CountDocuments with skip/limit
		q := c01Filter("q")
		skip, limit := vf.Int64("skip"), vf.Int64("limit")
		vf.Assume(skip >= 0 && limit >= 0 && skip < 100 && limit < 100)
		got, err := coll.CountDocuments(bg, q, options.Count().SetSkip(skip).SetLimit(limit))
		vf.Assert(err == nil, "CountDocuments failed")
		want := int64(len(m.match(q))) - skip
		if want < 0 {
			want = 0
		}
		if limit > 0 && want > limit {
			want = limit
		}
		vf.Observe("count", got)
		vf.Assert(got == want, "CountDocuments differs from the model")
	case 2: // UpdateOne / UpdateMany with $set
		q := c01Filter("q")
		v := c01Val("v")
		upd := bson.D{{Key: "$set", Value: bson.D{{Key: "a", Value: v}}}}
		many := vf.Bool("many")
		hit := m.match(q)
		if !many && len(hit) > 1 {
			hit = hit[:1]
		}
		var matched, modified int64
		for _, i := range hit {
			matched++
			before := *bsonkit.Clone(&m.docs[i])
			_, err := bsonkit.Put(&m.docs[i], "a", v, false)
			vf.Assume(err == nil)
			if !vf.EqualValues(before, m.docs[i]) {
				modified++
			}
		}
		var err error
		var mc, dc int64
		if many {
			r, e := coll.UpdateMany(bg, q, upd)
			err = e
			if e == nil {
				mc, dc = r.MatchedCount, r.ModifiedCount
			}
		} else {
			r, e := coll.UpdateOne(bg, q, upd)
			err = e
			if e == nil {
				mc, dc = r.MatchedCount, r.ModifiedCount
			}
		}
		vf.Assert(err == nil, "update failed")
		vf.Assert(mc == matched, "MatchedCount differs from the model")
		vf.Assert(dc == modified, "ModifiedCount differs from the model")
	case 3: // DeleteOne / DeleteMany
		q := c01Filter("q")
		many := vf.Bool("many")
		hit := m.match(q)
		if !many && len(hit) > 1 {
			hit = hit[:1]
		}
		var kept []bson.D
		for i := range m.docs {
			del := false
			for _, j := range hit {
				if i == j {
					del = true
				}
			}
			if !del {
				kept = append(kept, m.docs[i])
			}
		}
		m.docs = kept
		var cnt int64
		if many {
			r, err := coll.DeleteMany(bg, q)
			vf.Assert(err == nil, "DeleteMany failed")
			cnt = r.DeletedCount
		} else {
			r, err := coll.DeleteOne(bg, q)
			vf.Assert(err == nil, "DeleteOne failed")
			cnt = r.DeletedCount
		}
		vf.Assert(cnt == int64(len(hit)), "DeletedCount differs from the model")
	case 4: // ReplaceOne (with upsert)
		q := c01Filter("q")
		repl := bson.D{{Key: "a", Value: c01Val("v")}}
		upsert := vf.Bool("upsert")
		hit := m.match(q)
		res, err := coll.ReplaceOne(bg, q, repl, options.Replace().SetUpsert(upsert))
		if len(hit) > 0 {
			vf.Assert(err == nil, "ReplaceOne failed")
			i := hit[0]
			nd := append(bson.D{{Key: "_id", Value: bsonkit.Get(&m.docs[i], "_id")}}, repl...)
			changed := !vf.EqualValues(m.docs[i], nd)
			m.docs[i] = nd
			vf.Assert(res.MatchedCount == 1, "ReplaceOne: MatchedCount differs from the model")
			vf.Assert((res.ModifiedCount == 1) == changed, "ReplaceOne: ModifiedCount differs from the model")
			vf.Assert(res.UpsertedCount == 0, "ReplaceOne reported an upsert although a document matched")
		} else if upsert {
			vf.Assert(err == nil, "ReplaceOne (upsert) failed")
			vf.Assert(res.UpsertedCount == 1 && res.UpsertedID != nil, "ReplaceOne did not upsert")
			m.docs = append(m.docs, append(bson.D{{Key: "_id", Value: res.UpsertedID}}, repl...))
			if len(q) == 1 && q[0].Key == "_id" {
				vf.Assert(vf.EqualValues(res.UpsertedID, q[0].Value), "the upserted document did not take the _id of the filter")
			}
		} else {
			vf.Assert(err == nil && res.MatchedCount == 0 && res.ModifiedCount == 0 && res.UpsertedCount == 0, "ReplaceOne without match changed something")
		}
	case 5: // FindOneAndUpdate with ReturnDocument
		q := c01Filter("q")
		delta := vf.Int32("delta")
		upd := bson.D{{Key: "$set", Value: bson.D{{Key: "b", Value: delta}}}}
		after := vf.Bool("after")
		rd := options.Before
		if after {
			rd = options.After
		}
		hit := m.match(q)
		var out bson.D
		err := coll.FindOneAndUpdate(bg, q, upd, options.FindOneAndUpdate().SetReturnDocument(rd)).Decode(&out)
		if len(hit) == 0 {
			vf.Assert(err == ErrNoDocuments, "FindOneAndUpdate without match did not return ErrNoDocuments")
		} else {
			vf.Assert(err == nil, "FindOneAndUpdate failed")
			i := hit[0]
			before := *bsonkit.Clone(&m.docs[i])
			_, e := bsonkit.Put(&m.docs[i], "b", delta, false)
			vf.Assume(e == nil)
			if after {
				vf.Assert(vf.EqualValues(out, m.docs[i]), "FindOneAndUpdate(After) returned a different document than the model")
			} else {
				vf.Assert(vf.EqualValues(out, before), "FindOneAndUpdate(Before) returned a different document than the model")
			}
		}
	case 6: // Find with sort, skip, limit
		q := c01Filter("q")
		skip, limit := vf.Int64("skip"), vf.Int64("limit")
		vf.Assume(skip >= 0 && limit >= 0 && skip < 100 && limit < 100)
		desc := vf.Bool("desc")
		dir := int32(1)
		if desc {
			dir = -1
		}
		cur, err := coll.Find(bg, q, options.Find().SetSort(bson.D{{Key: "_id", Value: dir}}).SetSkip(skip).SetLimit(limit))
		vf.Assert(err == nil, "Find failed")
		var got []bson.D
		vf.Assert(cur.All(bg, &got) == nil, "cursor.All failed")
		hit := m.match(q)
		var want []bson.D
		for k := range hit {
			i := hit[k]
			if desc {
				i = hit[len(hit)-1-k]
			}
			want = append(want, m.docs[i])
		}
		if skip >= int64(len(want)) {
			want = nil
		} else {
			want = want[skip:]
		}
		if limit > 0 && limit < int64(len(want)) {
			want = want[:limit]
		}
		vf.Observe("found", int64(len(got)))
		vf.Assert(sameModel(got, want), "Find differs from the model")
	case 7: // Drop, then insert again
		vf.Assert(coll.Drop(bg) == nil, "Drop failed")
		m.docs = nil
		if vf.Bool("reinsert") {
			d := bson.D{{Key: "_id", Value: int32(0)}}
			_, err := coll.InsertOne(bg, d)
			vf.Assert(err == nil, "insert after drop failed")
			m.docs = append(m.docs, d)
		}
	}
	vf.Assert(sameModel(allDocs(coll), m.docs), "the contents of the collection differ from the model after the call")
	engine.Close()
}
