package lungo

import (
	"time"

	"go.mongodb.org/mongo-driver/bson"
	"go.mongodb.org/mongo-driver/bson/primitive"

	"github.com/256dpi/lungo/bsonkit"
	"github.com/256dpi/lungo/internal/vf"
	"github.com/256dpi/lungo/mongokit"
)

// ---------- C19: TTL expiry ----------

func containsDateBefore(v interface{}, cut primitive.DateTime) (older bool, newer bool) {
	switch x := v.(type) {
	case primitive.DateTime:
		return x < cut, x >= cut
	case bson.A:
		for _, e := range x {
			if d, ok := e.(primitive.DateTime); ok {
				if d < cut {
					older = true
				} else {
					newer = true
				}
			}
		}
	}
	return
}

func H_C19_expire() {
	txn := NewTransaction(NewCatalog())
	// expiry intervals incl. the 1ns that expireAfterSeconds: 0 maps to
	expiry := []time.Duration{time.Nanosecond, time.Second, time.Hour}[vf.Choice("expiry", 3)]
	hasTTL := vf.Bool("hasTTL")
	if hasTTL {
		_, err := txn.CreateIndex(hMain, "", mongokit.IndexConfig{Key: &bson.D{{Key: "t", Value: int32(1)}}, Expiry: expiry})
		vf.Assume(err == nil)
	}
	// optionally a second TTL index on another field (u) with its own interval
	two := hasTTL && vf.Param("two", 0) == 1
	expiry2 := time.Hour
	if two {
		expiry2 = []time.Duration{time.Second, time.Hour}[vf.Choice("expiry2", 2)]
		_, err := txn.CreateIndex(hMain, "", mongokit.IndexConfig{Key: &bson.D{{Key: "u", Value: int32(1)}}, Expiry: expiry2})
		vf.Assume(err == nil)
	}
	if vf.Bool("otherIndex") {
		_, err := txn.CreateIndex(hMain, "", mongokit.IndexConfig{Key: &bson.D{{Key: "a", Value: int32(1)}}})
		vf.Assume(err == nil)
	}
	// a second namespace without TTL index that must never be touched
	other := Handle{"db", "plain"}
	od := bson.D{{Key: "_id", Value: int32(1)}, {Key: "t", Value: primitive.DateTime(0)}}
	_, err := txn.Insert(other, bsonkit.List{&od}, true)
	vf.Assume(err == nil)
	// a third namespace with a TTL index on ANOTHER field (u): its document has a very old date in t,
	// which is not TTL-indexed there, and must survive
	third := Handle{"db", "ttlu"}
	if vf.Bool("thirdTTL") {
		_, err := txn.CreateIndex(third, "", mongokit.IndexConfig{Key: &bson.D{{Key: "u", Value: int32(1)}}, Expiry: time.Hour})
		vf.Assume(err == nil)
	}
	td := bson.D{{Key: "_id", Value: int32(1)}, {Key: "t", Value: primitive.DateTime(0)}}
	_, err = txn.Insert(third, bsonkit.List{&td}, true)
	vf.Assume(err == nil)
	n := vf.Choice("n", vf.Param("maxdocs", 2)+1)
	ttags := uint32(vf.TDate|vf.TInt32|vf.TInt64|vf.TString|vf.TNull|vf.TArray) | vf.Child(vf.TDate|vf.TInt32)
	for i := 0; i < n; i++ {
		id := "d" + string(rune('0'+i))
		d := bson.D{{Key: "_id", Value: int32(i)}}
		if vf.Bool(id + ".hasT") {
			d = append(d, bson.E{Key: "t", Value: vf.Value(id+".t", "", 2, ttags, 1)})
		}
		if two && vf.Bool(id+".hasU") {
			d = append(d, bson.E{Key: "u", Value: vf.Value(id+".u", "", 0, vf.TDate|vf.TInt32, 0)})
		}
		res, err := txn.Insert(hMain, bsonkit.List{&d}, true)
		vf.Assume(err == nil && res.Error == nil)
	}
	before := txn.Catalog()
	beforeDocs := append(bsonkit.List{}, stDocs(txn)...)
	beforeLog := len(stOplog(before))
	txn.dirty = false
	t0 := primitive.NewDateTimeFromTime(time.Now())
	err = txn.Expire()
	t1 := primitive.NewDateTimeFromTime(time.Now())
	vf.Assert(err == nil, "Expire failed")
	afterDocs := stDocs(txn)
	ms := primitive.DateTime(expiry / time.Millisecond) // 1ns -> 0ms
	removed := 0
	for _, d := range beforeDocs {
		gone := !inList(afterDocs, d)
		if gone {
			removed++
		}
		older0, _ := containsDateBefore(bsonkit.Get(d, "t"), t0-ms)
		older1, _ := containsDateBefore(bsonkit.Get(d, "t"), t1-ms)
		if two {
			// each TTL index applies its own interval to its own field
			ms2 := primitive.DateTime(expiry2 / time.Millisecond)
			u0, _ := containsDateBefore(bsonkit.Get(d, "u"), t0-ms2)
			u1, _ := containsDateBefore(bsonkit.Get(d, "u"), t1-ms2)
			older0 = older0 || u0
			older1 = older1 || u1
		}
		if !hasTTL {
			vf.Assert(!gone, "a document was removed from a collection without TTL index")
			continue
		}
		if older0 {
			vf.Assert(gone, "an expired document survived the expiry pass")
		}
		if !older1 {
			vf.Assert(!gone, "a document that is not expired (newer date, non-date value or no such field) was removed")
		}
	}
	// survivors keep their order
	k := 0
	for _, d := range beforeDocs {
		if inList(afterDocs, d) {
			vf.Assert(afterDocs[k] == d, "surviving documents changed their order")
			k++
		}
	}
	vf.Assert(len(afterDocs) == k, "the expiry pass added documents")
	vf.Assert(len(stOplog(txn.Catalog())) == beforeLog+removed, "removals are not logged one delete event each")
	for _, ev := range stOplog(txn.Catalog())[beforeLog:] {
		vf.Assert(bsonkit.Get(ev, "operationType") == "delete", "an expiry removal is not logged as delete")
	}
	vf.Assert(len(txn.Catalog().Namespaces[other].Documents.List) == 1, "a collection without TTL index was touched")
	vf.Assert(len(txn.Catalog().Namespaces[third].Documents.List) == 1, "a document was removed because of a date in a field that is not TTL-indexed in its collection")
	if removed == 0 {
		vf.Assert(txn.Catalog() == before && !txn.Dirty(), "an expiry pass that removes nothing changed the transaction")
	}
	vf.Observe("removed", int64(removed))
}

// ---------- C08(b): retention ----------

func H_C08_clean() {
	txn := NewTransaction(NewCatalog())
	n := vf.Choice("n", vf.Param("maxevents", 3)+1)
	for i := 0; i < n; i++ {
		d := bson.D{{Key: "_id", Value: int32(i)}}
		res, err := txn.Insert(hMain, bsonkit.List{&d}, true)
		vf.Assume(err == nil && res.Error == nil)
	}
	beforeLog := append(bsonkit.List{}, stOplog(txn.Catalog())...)
	vf.Assume(len(beforeLog) == n)
	minSize, maxSize := vf.Choice("minSize", 5), vf.Choice("maxSize", 5)
	ages := []time.Duration{0, time.Second, 10 * time.Second, time.Hour}
	minAge := ages[vf.Choice("minAge", 4)]
	maxAge := ages[1+vf.Choice("maxAge", 3)]
	s0 := time.Now().Unix()
	txn.Clean(minSize, maxSize, minAge, maxAge)
	s1 := time.Now().Unix()
	vf.Assume(s0 == s1) // the clock does not tick during the call: "now" is known to the second
	now := uint32(s0)
	afterLog := stOplog(txn.Catalog())
	k := len(beforeLog) - len(afterLog)
	vf.Observe("dropped", int64(k))
	vf.Assert(k >= 0, "retention added events")
	for i := range afterLog {
		vf.Assert(afterLog[i] == beforeLog[k+i], "retention removed something other than a prefix")
	}
	minSec, maxSec := uint32(minAge/time.Second), uint32(maxAge/time.Second)
	protected := func(i int) bool {
		age := now - tsOf(beforeLog[i]).T
		return i >= n-minSize || (minSec != 0 && age <= minSec)
	}
	for i := 0; i < k; i++ {
		vf.Assert(!protected(i), "retention removed a protected event (minimum size or minimum age)")
	}
	if k < n && !protected(k) {
		age := now - tsOf(beforeLog[k]).T
		vf.Assert(!(k < n-maxSize || age > maxSec), "an event beyond the maximum size or age that no protection covers was kept")
	}
}

// ---------- C06: persist and reload (lungo's own build/rebuild logic; codec stubbed) ----------

func H_C06_roundtrip() {
	txn, idx := stState()
	cat := txn.Catalog()
	file := BuildFile(cat)
	back, err := file.BuildCatalog()
	vf.Assert(err == nil, "BuildCatalog failed on a file built from a reachable catalog")
	vf.Assert(len(back.Namespaces) == len(cat.Namespaces), "reload yields a different set of namespaces")
	for h, ns := range cat.Namespaces {
		ns2 := back.Namespaces[h]
		vf.Assert(ns2 != nil, "a namespace is missing after reload")
		vf.Assert(len(ns2.Documents.List) == len(ns.Documents.List), "a namespace holds a different number of documents after reload")
		for i, d := range ns.Documents.List {
			vf.Assert(vf.EqualValues(*ns2.Documents.List[i], *d), "a document differs after reload (value or natural order)")
		}
		vf.Assert(len(ns2.Indexes) == len(ns.Indexes), "a namespace has a different set of indexes after reload")
		for name, ix := range ns.Indexes {
			ix2 := ns2.Indexes[name]
			vf.Assert(ix2 != nil, "an index is missing after reload")
			c1, c2 := ix.Config(), ix2.Config()
			vf.Assert(c1.Equal(c2) && c2.Equal(c1), "an index definition differs after reload")
			vf.Assert(c1.Unique == c2.Unique && c1.Expiry == c2.Expiry && (c1.Partial == nil) == (c2.Partial == nil), "index options differ after reload")
			vf.Assert(len(ix.List()) == len(ix2.List()), "an index holds a different number of documents after reload")
		}
	}
	coherent(back, "after reload")
	// a probe insert is accepted or rejected exactly as before the reload
	probe := stDoc("probe", true, vf.Int32("probe.id"))
	p2 := *bsonkit.Clone(&probe)
	t1 := NewTransaction(cat)
	t2 := NewTransaction(back)
	r1, e1 := t1.Insert(hMain, bsonkit.List{&probe}, true)
	r2, e2 := t2.Insert(hMain, bsonkit.List{&p2}, true)
	vf.Assert((e1 == nil) == (e2 == nil), "probe insert fails on one side only")
	if e1 == nil && e2 == nil {
		vf.Assert((r1.Error == nil) == (r2.Error == nil), "a probe insert is rejected on one side of the reload only")
		vf.ObserveBool("rejected", r1.Error != nil)
	}
	_ = idx
}

// ---------- C17 at the transaction level: stored state never shares memory with arguments ----------

func H_C17_txn() {
	txn, _ := stState()
	arg := stDoc("arg", vf.Bool("arg.hasID"), vf.Int32("arg.id"))
	// a nested container inside the argument
	arg = append(arg, bson.E{Key: "z", Value: bson.D{{Key: "k", Value: bson.A{int32(1), int32(2)}}}})
	q := stFilter("q")
	// (update documents are not copied at this level: the driver API hands the transaction a codec
	// copy, see the driver-level harness)
	switch vf.Choice("call", 2) {
	case 0:
		_, err := txn.Insert(hMain, bsonkit.List{&arg}, true)
		vf.ObserveBool("err", err != nil)
	case 1:
		_, err := txn.Replace(hMain, &q, nil, &arg, vf.Bool("upsert"))
		vf.ObserveBool("err", err != nil)
	}
	// the caller goes on to mutate its argument: nothing stored may change
	vf.Assert(!vf.Shares(&arg, txn.Catalog()), "stored state shares mutable memory with a call argument")
}
