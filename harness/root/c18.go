package lungo

import (
	"context"
	"io"

	"go.mongodb.org/mongo-driver/bson"
	"go.mongodb.org/mongo-driver/mongo"
	"go.mongodb.org/mongo-driver/mongo/options"

	"github.com/256dpi/lungo/internal/vf"
)

// C18: the REAL UploadStream / DownloadStream code runs against in-memory mock collections (the
// collection layer below the bucket is C01's subject). The streams are built in-package with a small
// upload buffer: the code only ever uses len(s.buffer), so the 16 MiB constant is a parameter.
// Sizes (content length, chunk size, buffer size, write partition, read sizes) are small symbolic
// choices; the content bytes and the seek offsets are unconstrained symbolic values.

type mockChunks struct {
	ICollection
	docs []BucketChunk
}

func (m *mockChunks) InsertMany(_ context.Context, docs []interface{}, _ ...*options.InsertManyOptions) (*mongo.InsertManyResult, error) {
	for _, d := range docs {
		c := d.(BucketChunk)
		// the codec serialises at insert time: the stored bytes are a copy
		c.Data = append([]byte{}, c.Data...)
		m.docs = append(m.docs, c)
	}
	return &mongo.InsertManyResult{}, nil
}

type mockCursor struct {
	ICursor
	list []BucketChunk
	pos  int
}

func (c *mockCursor) Next(context.Context) bool {
	if c.pos+1 < len(c.list) {
		c.pos++
		return true
	}
	return false
}
func (c *mockCursor) Err() error                  { return nil }
func (c *mockCursor) Close(context.Context) error { return nil }
func (c *mockCursor) Decode(out interface{}) error {
	p := out.(*BucketChunk)
	*p = c.list[c.pos]
	p.Data = append([]byte{}, p.Data...)
	return nil
}

// Find returns the chunks of the file sorted by n, after skip (the only query the streams issue).
func (m *mockChunks) Find(_ context.Context, filter interface{}, opts ...*options.FindOptions) (ICursor, error) {
	fid := filter.(bson.M)["files_id"]
	var list []BucketChunk
	for _, d := range m.docs {
		if d.File == fid {
			list = append(list, d)
		}
	}
	// insertion sort by n
	for i := 1; i < len(list); i++ {
		for j := i; j > 0 && list[j].Num < list[j-1].Num; j-- {
			list[j], list[j-1] = list[j-1], list[j]
		}
	}
	skip := 0
	if len(opts) > 0 && opts[0].Skip != nil {
		skip = int(*opts[0].Skip)
	}
	if skip > len(list) {
		skip = len(list)
	}
	return &mockCursor{list: list[skip:], pos: -1}, nil
}

type mockFiles struct {
	ICollection
	docs []BucketFile
}

func (m *mockFiles) InsertOne(_ context.Context, doc interface{}, _ ...*options.InsertOneOptions) (*mongo.InsertOneResult, error) {
	m.docs = append(m.docs, doc.(BucketFile))
	return &mongo.InsertOneResult{}, nil
}

type mockSingle struct {
	ISingleResult
	file *BucketFile
}

func (r *mockSingle) Decode(out interface{}) error {
	if r.file == nil {
		return ErrNoDocuments
	}
	p := out.(**BucketFile)
	f := *r.file
	*p = &f
	return nil
}

func (m *mockFiles) FindOne(_ context.Context, filter interface{}, _ ...*options.FindOneOptions) ISingleResult {
	id := filter.(bson.M)["_id"]
	for i := range m.docs {
		if m.docs[i].ID == id {
			return &mockSingle{file: &m.docs[i]}
		}
	}
	return &mockSingle{}
}

func c18Content() []byte {
	n := vf.Choice("len", vf.Param("maxlen", 6)+1)
	b := make([]byte, n)
	for i := range b {
		b[i] = vf.Uint8("byte" + string(rune('0'+i)))
	}
	return b
}

func c18Upload(content []byte) (*Bucket, *mockChunks, *mockFiles, int) {
	chunks, files := &mockChunks{}, &mockFiles{}
	b := &Bucket{files: files, chunks: chunks}
	chunkSize := 1 + vf.Choice("chunkSize", vf.Param("maxchunk", 3))
	bufSize := 1 + vf.Choice("bufSize", vf.Param("maxbuf", 4))
	// domain: a chunk fits into the upload buffer (really 16 MiB, chunks are BSON documents <= 16 MiB);
	// with a chunk larger than the buffer Write cannot make progress (noted in DESIGN.md)
	vf.Assume(chunkSize <= bufSize)
	up := &UploadStream{context: context.Background(), bucket: b, id: "file", name: "f", chunkSize: chunkSize, buffer: make([]byte, bufSize)}
	// write partition: up to three writes
	cut1, cut2 := len(content), len(content)
	if vf.Param("onewrite", 0) == 0 {
		cut1 = vf.Choice("cut1", len(content)+1)
		cut2 = cut1 + vf.Choice("cut2", len(content)-cut1+1)
	}
	for _, part := range [][]byte{content[:cut1], content[cut1:cut2], content[cut2:]} {
		n, err := up.Write(part)
		vf.Assert(err == nil && n == len(part), "Write failed or was short")
	}
	vf.Assert(up.Close() == nil, "Close failed")
	return b, chunks, files, chunkSize
}

// upload: chunks are numbered 0..n-1, all but the last full, their concatenation is the content, the
// file record states the exact length and chunk size
func H_C18_upload() {
	content := c18Content()
	_, chunks, files, chunkSize := c18Upload(content)
	vf.Assert(len(files.docs) == 1, "exactly one file record expected")
	vf.Assert(files.docs[0].Length == len(content), "file record has the wrong length")
	vf.Assert(files.docs[0].ChunkSize == chunkSize, "file record has the wrong chunk size")
	want := (len(content) + chunkSize - 1) / chunkSize
	vf.Observe("chunks", int64(len(chunks.docs)))
	vf.Assert(len(chunks.docs) == want, "wrong number of chunks")
	pos := 0
	for i, c := range chunks.docs {
		vf.Assert(c.Num == i, "chunks are not numbered 0..n-1 in upload order")
		if i < want-1 {
			vf.Assert(len(c.Data) == chunkSize, "a chunk other than the last is not full")
		}
		for _, x := range c.Data {
			vf.Assert(pos < len(content) && x == content[pos], "chunk data differs from the uploaded content")
			pos++
		}
	}
	vf.Assert(pos == len(content), "chunks do not cover the content")
}

// refReader: the in-memory reference (bytes.Reader semantics)
type refReader struct {
	data []byte
	pos  int64
}

func (r *refReader) Read(buf []byte) (int, error) {
	if r.pos >= int64(len(r.data)) {
		return 0, io.EOF
	}
	n := copy(buf, r.data[r.pos:])
	r.pos += int64(n)
	return n, nil
}

func (r *refReader) Seek(offset int64, whence int) (int64, bool) {
	var abs int64
	switch whence {
	case io.SeekStart:
		abs = offset
	case io.SeekCurrent:
		abs = r.pos + offset
	case io.SeekEnd:
		abs = int64(len(r.data)) + offset
	}
	if abs < 0 {
		return 0, false
	}
	r.pos = abs
	return abs, true
}

// download: any script of reads, skips and seeks behaves like the same script on an in-memory reader
func H_C18_download() {
	content := c18Content()
	b, _, _, _ := c18Upload(content)
	down := &DownloadStream{context: context.Background(), bucket: b, id: "file"}
	ref := &refReader{data: content}
	steps := vf.Param("steps", 3)
	for k := 0; k < steps; k++ {
		sk := string(rune('0' + k))
		isSeek := false
		if vf.Param("rsr", 0) == 1 {
			isSeek = k%2 == 1 // read, seek, read, ...
		} else {
			isSeek = vf.Bool("isSeek" + sk)
		}
		if isSeek {
			off := vf.Int64("off" + sk)
			whence := vf.Choice("whence"+sk, 3)
			// positions stay within the range where int arithmetic cannot wrap (stated bound)
			vf.Assume(off > -1000000 && off < 1000000)
			got, err := down.Seek(off, whence)
			want, ok := ref.Seek(off, whence)
			vf.Assert((err == nil) == ok, "Seek succeeds on one side only")
			if ok {
				vf.Assert(got == want, "Seek returned a different position")
			} else {
				vf.Assert(err == ErrNegativePosition, "Seek to a negative position did not return ErrNegativePosition")
			}
		} else {
			size := vf.Choice("size"+sk, vf.Param("maxread", 3)+1)
			buf1, buf2 := make([]byte, size), make([]byte, size)
			n1, err1 := down.Read(buf1)
			n2, err2 := ref.Read(buf2)
			vf.Observe("n"+sk, int64(n1))
			if size == 0 {
				// a zero-length read returns 0; EOF reporting may differ between readers
				vf.Assert(n1 == 0, "zero-length read returned data")
				continue
			}
			vf.Assert((err1 == io.EOF) == (err2 == io.EOF), "end-of-file behaviour differs from an in-memory reader")
			vf.Assert(err1 == nil || err1 == io.EOF, "Read failed")
			vf.Assert(n1 == n2, "Read returned a different number of bytes than an in-memory reader")
			for i := 0; i < n1; i++ {
				vf.Assert(buf1[i] == buf2[i], "Read returned different bytes than an in-memory reader")
			}
		}
	}
}
