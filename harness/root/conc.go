package lungo

import (
	"context"
	"errors"
	"time"

	"go.mongodb.org/mongo-driver/bson"
	"go.mongodb.org/mongo-driver/bson/primitive"

	"github.com/256dpi/lungo/bsonkit"
	"github.com/256dpi/lungo/internal/vf"
)

// Concurrency harnesses run with the engine's scheduler model (engine/sched.go): goroutines are
// interleaved at synchronisation operations (mutex lock, channel operation, select, go, goroutine
// end), the choice of the next goroutine is symbolic, bounded by a pre-emption bound. A state in
// which goroutines remain but none can run is a deadlock; timers fire only when everybody is
// blocked ("time passes only when nothing else can happen").

func getN(coll ICollection) int32 {
	var out bson.D
	err := coll.FindOne(bg, bson.D{{Key: "_id", Value: "ctr"}}).Decode(&out)
	vf.Assert(err == nil, "counter document not found")
	n, _ := bsonkit.Get(&out, "n").(int32)
	return n
}

// ---------- C04: no lost update, one event per write, reads see committed prefixes ----------

func H_C04_inc() {
	engine, client := mkEngine()
	coll := client.Database("db").Collection("c")
	init := vf.Int32("init")
	vf.Assume(init > -1000 && init < 1000)
	_, err := coll.InsertOne(bg, bson.D{{Key: "_id", Value: "ctr"}, {Key: "n", Value: init}})
	vf.Assume(err == nil)
	logBefore := len(stOplog(engine.Catalog()))
	actors := vf.Param("actors", 2)
	done := make([]bool, actors)
	var seen []int32
	for a := 0; a < actors; a++ {
		a := a
		kind := vf.Choice("kind"+string(rune('0'+a)), 3)
		vf.Go(func() {
			switch kind {
			case 0: // single read-modify-write
				res, err := coll.UpdateOne(bg, bson.D{{Key: "_id", Value: "ctr"}}, bson.D{{Key: "$inc", Value: bson.D{{Key: "n", Value: int32(1)}}}})
				vf.Assert(err == nil && res.ModifiedCount == 1, "increment failed")
				done[a] = true
			case 1: // multi-statement transaction: read, then write read+1
				sess, _ := client.StartSession()
				s := sess.(*Session)
				if s.StartTransaction() != nil {
					return
				}
				sctx := context.WithValue(bg, sessionKey{}, s)
				var cur bson.D
				if coll.FindOne(sctx, bson.D{{Key: "_id", Value: "ctr"}}).Decode(&cur) != nil {
					s.AbortTransaction(bg)
					return
				}
				n, _ := bsonkit.Get(&cur, "n").(int32)
				_, err := coll.ReplaceOne(sctx, bson.D{{Key: "_id", Value: "ctr"}}, bson.D{{Key: "n", Value: n + 1}})
				vf.Assert(err == nil, "replace in transaction failed")
				if s.CommitTransaction(bg) == nil {
					done[a] = true
				}
			case 2: // reader
				seen = append(seen, getN(coll))
			}
		})
	}
	vf.WaitAll()
	succ := int32(0)
	for _, d := range done {
		if d {
			succ++
		}
	}
	final := getN(coll)
	vf.Observe("succ", int64(succ))
	vf.Assert(final == init+succ, "an update was lost: the final value is not the initial value plus the successful increments")
	vf.Assert(len(stOplog(engine.Catalog()))-logBefore == int(succ), "the change log does not hold exactly one event per committed write")
	for _, v := range seen {
		vf.Assert(v >= init && v <= init+succ, "a read returned a value that no committed prefix explains")
	}
	engine.Close()
}

// two goroutines write through ONE session transaction: Transaction's own lock must serialise them
func H_C04_shared() {
	engine, client := mkEngine()
	coll := client.Database("db").Collection("c")
	init := vf.Int32("init")
	vf.Assume(init > -1000 && init < 1000)
	_, err := coll.InsertOne(bg, bson.D{{Key: "_id", Value: "ctr"}, {Key: "n", Value: init}})
	vf.Assume(err == nil)
	logBefore := len(stOplog(engine.Catalog()))
	sess, _ := client.StartSession()
	s := sess.(*Session)
	vf.Assert(s.StartTransaction() == nil, "StartTransaction failed")
	sctx := context.WithValue(bg, sessionKey{}, s)
	for a := 0; a < 2; a++ {
		a := a
		vf.Go(func() {
			if a == 0 || vf.Bool("bothInc") {
				res, err := coll.UpdateOne(sctx, bson.D{{Key: "_id", Value: "ctr"}}, bson.D{{Key: "$inc", Value: bson.D{{Key: "n", Value: int32(1)}}}})
				vf.Assert(err == nil && res.ModifiedCount == 1, "increment inside the shared transaction failed")
			} else {
				_, err := coll.InsertOne(sctx, bson.D{{Key: "_id", Value: "other"}})
				vf.Assert(err == nil, "insert inside the shared transaction failed")
			}
		})
	}
	vf.WaitAll()
	vf.Assert(s.CommitTransaction(bg) == nil, "commit failed")
	both := vf.Bool("bothInc")
	want := init + 1
	if both {
		want = init + 2
	}
	vf.Assert(getN(coll) == want, "a write made through a shared session transaction was lost")
	vf.Assert(len(stOplog(engine.Catalog()))-logBefore == 2, "the change log does not hold one event per write of the shared transaction")
	if !both {
		n, _ := coll.CountDocuments(bg, bson.D{})
		vf.Assert(n == 2, "the insert made through the shared transaction was lost")
	}
	engine.Close()
}

// ---------- C16: the writer slot is always freed, no deadlock, shutdown completes ----------

var errBoom = errors.New("boom")

func H_C16_protocol() {
	st := &flakyStore{}
	var engine *Engine
	vf.Daemon(func() {
		e, err := CreateEngine(Options{Store: st})
		vf.Assume(err == nil)
		engine = e
	})
	client := &Client{engine: engine}
	coll := client.Database("db").Collection("c")
	actors := vf.Param("actors", 2)
	closed := false
	for a := 0; a < actors; a++ {
		as := string(rune('0' + a))
		kind := vf.Choice("kind"+as, 8)
		if a == 0 && vf.Param("k0", -1) >= 0 {
			kind = vf.Param("k0", -1)
		}
		if a > 0 && vf.Param("partners", 0) == 2 {
			// every kind of actor against a plain writer and against shutdown
			kind = []int{0, 6}[vf.Choice("partner"+as, 2)]
		} else if a > 0 && vf.Param("partners", 0) == 1 {
			// quick tier: every kind of actor against a plain writer
			kind = 0
		}
		vf.Go(func() {
			switch kind {
			case 0: // plain write
				_, err := coll.InsertOne(bg, bson.D{{Key: "k", Value: int32(1)}})
				vf.Assert(err == nil || err == ErrEngineClosed, "a plain write failed")
			case 1: // session transaction, committed or aborted or abandoned by ending the session
				sess, _ := client.StartSession()
				s := sess.(*Session)
				if err := s.StartTransaction(); err != nil {
					vf.Assert(err == ErrEngineClosed, "StartTransaction failed")
					return
				}
				sctx := context.WithValue(bg, sessionKey{}, s)
				coll.InsertOne(sctx, bson.D{{Key: "k", Value: int32(2)}})
				switch vf.Choice("end"+as, 3) {
				case 0:
					s.CommitTransaction(bg)
				case 1:
					s.AbortTransaction(bg)
				case 2:
					s.EndSession(bg)
				}
			case 2: // raw begin, then commit of a transaction whose store fails
				txn, err := engine.Begin(bg, true)
				if err != nil {
					return
				}
				d := bson.D{{Key: "k", Value: int32(3)}}
				txn.Insert(hMain, bsonkit.List{&d}, true)
				st.fail = true
				err = engine.Commit(txn)
				st.fail = false
				vf.Assert(err != nil, "a commit with a failing store reported success")
			case 3: // a cancelled context while waiting for the writer slot
				ctx, cancel := context.WithCancel(bg)
				vf.Go(func() { cancel() })
				_, err := coll.InsertOne(ctx, bson.D{{Key: "k", Value: int32(4)}})
				_ = err
			case 4: // a callback that panics inside a write transaction
				panicked, _ := vf.Catch(func() {
					useTransaction(bg, engine, true, func(txn *Transaction) (interface{}, error) {
						panic("callback panic")
					})
				})
				_ = panicked
			case 5: // a callback that returns an error
				_, err := useTransaction(bg, engine, true, func(txn *Transaction) (interface{}, error) {
					return nil, errBoom
				})
				vf.Assert(err == errBoom || err == ErrEngineClosed, "the callback's error was not passed on")
			case 6: // shutdown
				engine.Close()
				closed = true
			case 7: // one session used from two goroutines: start a transaction while the session is ended
				sess, _ := client.StartSession()
				s := sess.(*Session)
				vf.Go(func() { s.EndSession(bg) })
				if err := s.StartTransaction(); err == nil {
					sctx := context.WithValue(bg, sessionKey{}, s)
					coll.InsertOne(sctx, bson.D{{Key: "k", Value: int32(7)}})
					s.CommitTransaction(bg)
					s.EndSession(bg)
				}
			}
		})
	}
	vf.WaitAll()
	// whatever happened: the writer slot is free (or the engine is closed) and a probe write proceeds
	_, err := coll.InsertOne(bg, bson.D{{Key: "probe", Value: int32(1)}})
	if closed {
		vf.Assert(err == ErrEngineClosed, "a call after shutdown did not return the closed error")
		_, err2 := engine.Begin(bg, false)
		vf.Assert(err2 == ErrEngineClosed, "Begin after shutdown did not return the closed error")
	} else {
		vf.Assert(err == nil, "the writer slot was not freed: a probe write after all actors finished fails")
		vf.Assert(engine.txn == nil, "a transaction is still registered after all actors finished")
		engine.Close()
	}
	vf.Assert(!engine.tomb.Alive(), "the engine is still alive after Close")
}

// ---------- C09: change streams ----------

func evID(ev bsonkit.Doc) primitive.Timestamp { return tsOf(ev) }

// sequential: scope filter, resume, invalidate, lost position
func H_C09_seq() {
	engine, client := mkEngine()
	dbs := []string{"db", "other"}
	colls := []string{"c", "d"}
	n := 1 + vf.Choice("n", vf.Param("maxevents", 3))
	for i := 0; i < n; i++ {
		is := string(rune('0' + i))
		db, cl := dbs[vf.Choice("db"+is, 2)], colls[vf.Choice("coll"+is, 2)]
		if vf.Bool("drop" + is) {
			client.Database(db).Collection(cl).Drop(bg)
		} else {
			_, err := client.Database(db).Collection(cl).InsertOne(bg, bson.D{{Key: "i", Value: int32(i)}})
			vf.Assume(err == nil)
		}
	}
	oplog := append(bsonkit.List{}, stOplog(engine.Catalog())...)
	// stream scope
	var h Handle
	switch vf.Choice("scope", 3) {
	case 1:
		h = Handle{"db", ""}
	case 2:
		h = Handle{"db", "c"}
	}
	// start position: from the beginning (resume after event k-1) or "now"
	start := vf.Choice("start", len(oplog)+1)
	var resume bsonkit.Doc
	if start > 0 {
		tok := bsonkit.Get(oplog[start-1], "_id").(bson.D)
		resume = &tok
	}
	var stream *Stream
	var err error
	if start == 0 {
		// a stream opened before anything happened would see everything; emulate with startAt 0
		ts := primitive.Timestamp{}
		stream, err = engine.Watch(h, nil, nil, nil, &ts)
	} else {
		switch vf.Choice("via", 3) {
		case 0:
			stream, err = engine.Watch(h, nil, resume, nil, nil)
		case 1:
			stream, err = engine.Watch(h, nil, nil, resume, nil)
		case 2:
			// startAt: the cluster time of the first event to deliver, or a time after the last event
			var ts primitive.Timestamp
			if start < len(oplog) {
				ts = bsonkit.Get(oplog[start], "clusterTime").(primitive.Timestamp)
			} else {
				ts = bsonkit.Get(oplog[start-1], "clusterTime").(primitive.Timestamp)
				ts.I++
			}
			stream, err = engine.Watch(h, nil, nil, nil, &ts)
		}
	}
	vf.Assert(err == nil, "Watch failed")
	// expected: the scope-filtered suffix; a drop of the watched collection / database ends the stream
	var want bsonkit.List
	invalidated := false
	for _, ev := range oplog[start:] {
		db, _ := bsonkit.Get(ev, "ns.db").(string)
		cl, _ := bsonkit.Get(ev, "ns.coll").(string)
		op, _ := bsonkit.Get(ev, "operationType").(string)
		if h[0] != "" && h[0] != db {
			continue
		}
		if h[1] != "" && h[1] != cl && op != "dropDatabase" {
			continue
		}
		want = append(want, ev)
		if h[0] != "" && h[1] != "" && op == "drop" || h[0] != "" && op == "dropDatabase" {
			invalidated = true
			break
		}
	}
	for i, ev := range want {
		ok := stream.TryNext(bg)
		vf.Assert(ok, "the stream did not deliver an event of its scope")
		vf.Assert(stream.event == ev, "the stream delivered a different event than the next one of its scope")
		_ = i
	}
	if invalidated {
		vf.Assert(stream.TryNext(bg), "no invalidate event after the watched namespace was dropped")
		vf.Assert(bsonkit.Get(stream.event, "operationType") == "invalidate", "the event after a drop is not an invalidate")
		vf.Assert(!stream.TryNext(bg), "the stream continued after invalidate")
	} else {
		vf.Assert(!stream.TryNext(bg), "the stream delivered an event outside its scope or twice")
		vf.Assert(stream.Err() == nil, "the stream reports an error")
	}
	vf.Observe("delivered", int64(len(want)))
	engine.Close()
}

// retention discards events the stream has not yet delivered: explicit error, never a silent skip
func H_C09_lost() {
	engine, client := mkEngine()
	coll := client.Database("db").Collection("c")
	_, err := coll.InsertOne(bg, bson.D{{Key: "i", Value: int32(0)}})
	vf.Assume(err == nil)
	tok := bsonkit.Get(stOplog(engine.Catalog())[0], "_id").(bson.D)
	stream, err := engine.Watch(Handle{}, nil, &tok, nil, nil)
	vf.Assert(err == nil, "Watch failed")
	_, err = coll.InsertOne(bg, bson.D{{Key: "i", Value: int32(1)}})
	vf.Assume(err == nil)
	// retention removes the stream's position
	txn, err := engine.Begin(bg, true)
	vf.Assert(err == nil, "Begin failed")
	// the real retention code: keep at most one event, no age protection
	txn.Clean(0, 1, 0, time.Hour)
	vf.Assert(len(stOplog(txn.Catalog())) == 1, "retention did not trim the oplog as configured")
	vf.Assert(engine.Commit(txn) == nil, "Commit failed")
	vf.Assert(!stream.TryNext(bg), "the stream skipped over discarded events")
	vf.Assert(stream.Err() == ErrLostOplogPosition, "no lost-position error after retention discarded the stream's position")
	engine.Close()
}

// concurrent: a consumer blocked in Next is woken by the next matching commit, by Close and by cancel
func H_C09_conc() {
	engine, client := mkEngine()
	coll := client.Database("db").Collection("c")
	h := Handle{"db", "c"}
	switch vf.Choice("scope", 3) {
	case 1:
		h = Handle{"db", ""}
	case 2:
		h = Handle{}
	}
	stream, err := engine.Watch(h, nil, nil, nil, nil)
	vf.Assert(err == nil, "Watch failed")
	writes := 1 + vf.Choice("writes", vf.Param("maxwrites", 2))
	mode := vf.Choice("mode", 4)
	dropSeen := false
	got := 0
	ended := false
	ctx, cancel := context.WithCancel(bg)
	vf.Go(func() {
		for got < writes {
			if !stream.Next(ctx) {
				ended = true
				return
			}
			i, _ := bsonkit.Get(stream.event, "fullDocument.i").(int32)
			vf.Assert(int(i) == got, "events were delivered out of order, twice or with a gap")
			got++
		}
		if mode == 3 {
			// the writer drops the collection at the end: the blocked consumer is woken with the drop event
			if !stream.Next(ctx) {
				ended = true
				return
			}
			vf.Assert(bsonkit.Get(stream.event, "operationType") == "drop", "the event after the inserts is not the drop")
			dropSeen = true
		}
	})
	vf.Go(func() {
		for i := 0; i < writes; i++ {
			_, err := coll.InsertOne(bg, bson.D{{Key: "i", Value: int32(i)}})
			vf.Assert(err == nil, "insert failed")
		}
		switch mode {
		case 1:
			stream.Close(bg)
		case 2:
			cancel()
		case 3:
			vf.Assert(coll.Drop(bg) == nil, "drop failed")
		}
	})
	vf.WaitAll()
	if mode == 3 {
		vf.Assert(got == writes && dropSeen && !ended, "the consumer did not receive the inserts and the drop")
	} else if mode == 0 {
		vf.Assert(got == writes && !ended, "the consumer did not receive every committed event")
	} else {
		vf.Assert(got == writes || ended, "the consumer neither received the events nor was it released")
	}
	vf.Observe("got", int64(got))
	cancel()
	engine.Close()
}

// shutdown while a Begin is blocked behind an active writer: whatever context the waiter passed, it is
// released by Close with the closed error, without waiting for the token timeout
func H_C16_shutdown() {
	engine, _ := mkEngine()
	holder, err := engine.Begin(bg, true)
	vf.Assert(err == nil, "Begin failed")
	kind := vf.Choice("ctx", 3)
	vf.Go(func() {
		ctx := bg
		switch kind {
		case 1:
			c, cancel := context.WithCancel(bg)
			defer cancel()
			ctx = c
		case 2:
			ctx = nil
		}
		txn, err := engine.Begin(ctx, true)
		if err == nil {
			engine.Abort(txn)
		}
		vf.Assert(err == ErrEngineClosed, "a Begin blocked behind a writer did not return the closed error after shutdown")
	})
	vf.Go(func() { engine.Close() })
	vf.WaitAll()
	vf.Assert(vf.TimerFires() == 0, "a blocked Begin was only released by the token timeout, not by the shutdown")
	engine.Abort(holder)
	_, err = engine.Begin(bg, true)
	vf.Assert(err == ErrEngineClosed, "Begin after shutdown did not return the closed error")
}

// retention trims a prefix of the change log while a stream is positioned somewhere in it: if the
// stream's position survives, it continues with the very next event (nothing skipped, nothing twice);
// if not, it reports the lost position
func H_C09_trim() {
	engine, client := mkEngine()
	coll := client.Database("db").Collection("c")
	total := 2 + vf.Choice("total", vf.Param("maxevents", 2))
	for i := 0; i < total; i++ {
		_, err := coll.InsertOne(bg, bson.D{{Key: "i", Value: int32(i)}})
		vf.Assume(err == nil)
	}
	oplog := append(bsonkit.List{}, stOplog(engine.Catalog())...)
	p := vf.Choice("pos", total)
	tok := bsonkit.Get(oplog[p], "_id").(bson.D)
	stream, err := engine.Watch(Handle{}, nil, &tok, nil, nil)
	vf.Assert(err == nil, "Watch failed")
	// optionally consume one event before the trim
	if p+1 < total && vf.Bool("consume") {
		vf.Assert(stream.TryNext(bg) && stream.event == oplog[p+1], "the stream did not deliver the next event")
		p++
	}
	keep := 1 + vf.Choice("keep", total)
	txn, err := engine.Begin(bg, true)
	vf.Assert(err == nil, "Begin failed")
	txn.Clean(0, keep, 0, time.Hour)
	vf.Assert(engine.Commit(txn) == nil, "Commit failed")
	kept := stOplog(engine.Catalog())
	vf.Assert(len(kept) == keep || keep > total && len(kept) == total, "retention did not trim the change log as configured")
	_, err = coll.InsertOne(bg, bson.D{{Key: "i", Value: int32(total)}})
	vf.Assume(err == nil)
	after := stOplog(engine.Catalog())
	first := total - len(kept) // index (in the original numbering) of the oldest retained event
	vf.Observe("first", int64(first))
	if p >= first {
		// position retained: the rest of the log, in order, exactly once
		for i := p + 1; i <= total; i++ {
			vf.Assert(stream.TryNext(bg), "the stream stalled although its position is still in the change log")
			vf.Assert(stream.event == after[i-first], "the stream skipped or repeated an event after retention trimmed the change log")
		}
		vf.Assert(!stream.TryNext(bg) && stream.Err() == nil, "the stream delivered an extra event or reports an error")
	} else {
		vf.Assert(!stream.TryNext(bg), "the stream skipped over discarded events")
		vf.Assert(stream.Err() == ErrLostOplogPosition, "no lost-position error after retention discarded the stream's position")
	}
	engine.Close()
}
