package lungo

import (
	"time"

	"go.mongodb.org/mongo-driver/bson"
	"go.mongodb.org/mongo-driver/bson/primitive"

	"github.com/256dpi/lungo/bsonkit"
	"github.com/256dpi/lungo/internal/vf"
	"github.com/256dpi/lungo/mongokit"
)

// Canonical state (DESIGN.md section 3.4): a catalog built through the real API from a symbolic list
// of documents and symbolic index configurations. Every step harness runs ONE operation with
// symbolic arguments from this state and asserts the property and that the post-state is again
// coherent; histories of any length follow by induction (an argument, not a solver fact).

var hMain = Handle{"db", "c"}

func stTags() uint32 {
	return uint32(vf.Param("tags", vf.TNull|vf.TInt32|vf.TDouble|vf.TString|vf.TArray)) | vf.Child(uint32(vf.Param("ctags", vf.TInt32|vf.TString)))
}

// stDoc: {_id: <id>, a?: X, b?: Y}
// pfx distinguishes the symbolic arguments of a second operation from those of the first
var pfx string

func stDoc(id string, withID bool, idv int32) bson.D {
	id = pfx + id
	d := bson.D{}
	if withID {
		d = append(d, bson.E{Key: "_id", Value: idv})
	}
	if vf.Bool(id + ".hasA") {
		d = append(d, bson.E{Key: "a", Value: vf.Value(id+".a", "", 2, stTags(), 1)})
	}
	if vf.Param("useb", 1) == 1 && vf.Bool(id+".hasB") {
		d = append(d, bson.E{Key: "b", Value: vf.Value(id+".b", "", 0, vf.TInt32|vf.TNull, 0)})
	}
	return d
}

type stIndex struct {
	name    string
	unique  bool
	partial bool
	pc      int32
	key     string
}

// stState builds: namespace db.c with n documents and (optionally) a secondary index on a
// (unique or not, partial {b: {$gt: pc}} or not).
func stState() (*Transaction, []stIndex) {
	txn := NewTransaction(NewCatalog())
	var idx []stIndex
	if vf.Param("index", 1) == 1 && vf.Bool("hasIndex") {
		ix := stIndex{key: "a", unique: vf.Bool("ix.unique")}
		cfg := mongokit.IndexConfig{Key: &bson.D{{Key: "a", Value: int32(1)}}, Unique: ix.unique}
		if vf.Param("partial", 1) == 1 && vf.Bool("ix.partial") {
			ix.partial = true
			ix.pc = vf.Int32("ix.pc")
			cfg.Partial = &bson.D{{Key: "b", Value: bson.D{{Key: "$gt", Value: ix.pc}}}}
		}
		name, err := txn.CreateIndex(hMain, "", cfg)
		vf.Assume(err == nil)
		ix.name = name
		idx = append(idx, ix)
	}
	n := vf.Choice("n", vf.Param("maxdocs", 2)+1)
	for i := 0; i < n; i++ {
		d := stDoc("d"+string(rune('0'+i)), true, int32(i))
		res, err := txn.Insert(hMain, bsonkit.List{&d}, true)
		vf.Assume(err == nil && res.Error == nil)
	}
	return txn, idx
}

func stDocs(txn *Transaction) bsonkit.List {
	ns := txn.Catalog().Namespaces[hMain]
	if ns == nil {
		return nil
	}
	return ns.Documents.List
}

func stOplog(cat *Catalog) bsonkit.List {
	return cat.Namespaces[Oplog].Documents.List
}

// ---------- coherence of a catalog (C15) ----------

func inList(list bsonkit.List, d bsonkit.Doc) bool {
	for _, x := range list {
		if x == d {
			return true
		}
	}
	return false
}

// coherent asserts that every index of every namespace holds exactly what an index rebuilt from the
// namespace's documents holds, in key order, and that the set's position map is exact.
func coherent(cat *Catalog, where string) {
	for _, ns := range cat.Namespaces {
		docs := ns.Documents.List
		vf.Assert(len(ns.Documents.Index) == len(docs), where+": set index map has the wrong size")
		for i, d := range docs {
			pos, ok := ns.Documents.Index[d]
			vf.Assert(ok && pos == i, where+": set index map does not hold the document's position")
		}
		for _, index := range ns.Indexes {
			fresh, err := mongokit.CreateIndex(index.Config())
			vf.Assert(err == nil, where+": index configuration cannot be rebuilt")
			ok, err := fresh.Build(docs)
			vf.Assert(err == nil && ok, where+": an index rebuilt from the documents reports a duplicate")
			got, want := index.List(), fresh.List()
			vf.Assert(len(got) == len(want), where+": index holds a different number of documents than a rebuilt one")
			for _, d := range want {
				vf.Assert(inList(got, d), where+": index lacks a document of the collection")
			}
			for _, d := range got {
				vf.Assert(inList(docs, d), where+": index holds a document that is not in the collection")
			}
		}
	}
}

// ---------- uniqueness (C07), with an independent key extractor ----------

// refKeys: index keys of a document for a single-field index on path a (arrays expand per element,
// an empty array is its own key, a missing field is indexed as null/missing)
func refKeys(d bsonkit.Doc, field string) []interface{} {
	for _, e := range *d {
		if e.Key == field {
			if arr, ok := e.Value.(bson.A); ok {
				if len(arr) == 0 {
					return []interface{}{arr}
				}
				return []interface{}(arr)
			}
			return []interface{}{e.Value}
		}
	}
	return []interface{}{nil}
}

func hasField(d bsonkit.Doc, field string) bool {
	for _, e := range *d {
		if e.Key == field {
			return true
		}
	}
	return false
}

func refUnder(d bsonkit.Doc, ix stIndex) bool {
	if !ix.partial {
		return true
	}
	for _, e := range *d {
		if e.Key == "b" {
			x, ok := e.Value.(int32)
			return ok && x > ix.pc
		}
	}
	return false
}

func keysCollide(k1, k2 []interface{}) bool {
	for _, x := range k1 {
		for _, y := range k2 {
			if bsonkit.Compare(x, y) == 0 {
				return true
			}
		}
	}
	return false
}

// hasDuplicate reports whether two distinct documents under a unique index (or _id) share a key.
func hasDuplicate(docs bsonkit.List, idx []stIndex) bool {
	for i := 0; i < len(docs); i++ {
		for j := i + 1; j < len(docs); j++ {
			// (a document without _id gets a fresh generated one: it never collides on _id)
			if hasField(docs[i], "_id") && hasField(docs[j], "_id") && keysCollide(refKeys(docs[i], "_id"), refKeys(docs[j], "_id")) {
				return true
			}
			for _, ix := range idx {
				if ix.unique && refUnder(docs[i], ix) && refUnder(docs[j], ix) && keysCollide(refKeys(docs[i], ix.key), refKeys(docs[j], ix.key)) {
					return true
				}
			}
		}
	}
	return false
}

// ---------- the operation under test ----------

type opOutcome struct {
	kind     int
	err      error
	res      *Result
	expected bsonkit.List // model of the post-state document list when the call succeeds (nil: not modelled)
	multi    bool         // multi-item call: items fail individually, the call itself succeeds
	bulk     []Result
	inserted bsonkit.Doc
	items    bsonkit.List // the documents of an insert-many
	ordered  bool
	q, u     bsonkit.Doc // filter and update of an update call
}

// runOp2 performs a second document write with its own symbolic arguments.
func runOp2(txn *Transaction, kind int) opOutcome {
	pfx = "second."
	defer func() { pfx = "" }()
	return runOpKind(txn, kind)
}

const (
	opInsert = iota
	opReplace
	opUpdateOne
	opUpdateMany
	opDelete
	opUpsert
	opCount // the document writes end here (H_STEP's default range)
	opCreateIndex
	opDropIndex
	opDrop
	opClean
	opExpire
	opInsertMany
	opBulk
	opAll
)

func stFilter(id string) bson.D {
	id = pfx + id
	switch vf.Choice(id+".kind", 3) {
	case 0:
		return bson.D{}
	case 1:
		return bson.D{{Key: "_id", Value: vf.Int32(id + ".id")}}
	}
	return bson.D{{Key: "a", Value: vf.Value(id+".a", "", 0, vf.TInt32|vf.TString|vf.TNull, 0)}}
}

func stUpdate(id string) bson.D {
	id = pfx + id
	switch vf.Choice(id+".kind", 4) {
	case 0:
		return bson.D{{Key: "$set", Value: bson.D{{Key: "a", Value: vf.Value(id+".v", "", 2, stTags(), 1)}}}}
	case 1:
		return bson.D{{Key: "$inc", Value: bson.D{{Key: "a", Value: vf.Int32(id + ".n")}}}}
	case 2:
		return bson.D{{Key: "$set", Value: bson.D{{Key: "b", Value: vf.Value(id+".v", "", 0, vf.TInt32|vf.TNull, 0)}}}}
	}
	return bson.D{{Key: "$push", Value: bson.D{{Key: "a", Value: vf.Value(id+".v", "", 0, vf.TInt32|vf.TString, 0)}}}}
}

// runOp performs one symbolic write on the transaction.
func runOp(txn *Transaction) opOutcome {
	kind := vf.Param("op", -1)
	if kind < 0 {
		if vf.Param("allops", 0) == 1 {
			kind = vf.Choice("op", opAll)
			vf.Assume(kind != opCount)
		} else {
			kind = vf.Choice("op", opCount)
		}
	}
	return runOpKind(txn, kind)
}

func runOpKind(txn *Transaction, kind int) opOutcome {
	out := opOutcome{kind: kind}
	switch kind {
	case opInsert:
		d := stDoc("new", vf.Bool(pfx+"new.hasID"), vf.Int32(pfx+"new.id"))
		out.inserted = &d
		out.res, out.err = txn.Insert(hMain, bsonkit.List{&d}, true)
		if out.err == nil && out.res.Error != nil {
			out.err = out.res.Error
		}
	case opReplace:
		q := stFilter("q")
		d := stDoc("repl", false, 0)
		out.res, out.err = txn.Replace(hMain, &q, nil, &d, false)
	case opUpdateOne:
		q, u := stFilter("q"), stUpdate("u")
		out.q, out.u = &q, &u
		out.res, out.err = txn.Update(hMain, &q, nil, &u, 0, 1, false, nil)
	case opUpdateMany:
		q, u := stFilter("q"), stUpdate("u")
		out.q, out.u = &q, &u
		out.res, out.err = txn.Update(hMain, &q, nil, &u, 0, 0, false, nil)
	case opDelete:
		q := stFilter("q")
		limit := 0
		if vf.Bool(pfx + "one") {
			limit = 1
		}
		out.res, out.err = txn.Delete(hMain, &q, nil, 0, limit)
	case opUpsert:
		q, u := stFilter("q"), stUpdate("u")
		out.res, out.err = txn.Update(hMain, &q, nil, &u, 0, 1, true, nil)
	case opCreateIndex:
		cfg := mongokit.IndexConfig{Key: &bson.D{{Key: vf.String("ci.key", "a,b"), Value: int32(1)}}, Unique: vf.Bool("ci.unique")}
		if vf.Bool("ci.partial") {
			cfg.Partial = &bson.D{{Key: "b", Value: bson.D{{Key: "$gt", Value: vf.Int32("ci.pc")}}}}
		}
		_, out.err = txn.CreateIndex(hMain, "", cfg)
	case opDropIndex:
		out.err = txn.DropIndex(hMain, vf.String("di.name", "a_1,,_id_,nope"))
	case opDrop:
		out.err = txn.Drop(Handle{"db", vf.String("drop.coll", "c,,x")})
	case opClean:
		txn.Clean(vf.Choice("cl.min", 3), vf.Choice("cl.max", 3), 0, time.Hour)
	case opExpire:
		out.err = txn.Expire()
	case opInsertMany:
		// two documents, ordered or not; each may fail on its own (duplicate _id or unique key)
		d1 := stDoc("m1", vf.Bool("m1.hasID"), vf.Int32("m1.id"))
		d2 := stDoc("m2", vf.Bool("m2.hasID"), vf.Int32("m2.id"))
		out.ordered = vf.Bool("ordered")
		out.items = bsonkit.List{&d1, &d2}
		out.res, out.err = txn.Insert(hMain, bsonkit.List{&d1, &d2}, out.ordered)
		out.multi = true
	case opBulk:
		// a write that succeeds or fails, followed by one that succeeds or fails, in one bulk
		d1 := stDoc("b1", true, vf.Int32("b1.id"))
		q, u := stFilter("q"), stUpdate("u")
		ops := []Operation{{Opcode: Insert, Document: &d1}, {Opcode: Update, Filter: &q, Document: &u}}
		if vf.Bool("swap") {
			ops[0], ops[1] = ops[1], ops[0]
		}
		results, err := txn.Bulk(hMain, ops, vf.Bool("ordered"))
		out.err = err
		out.multi = true
		out.bulk = results
	}
	return out
}

var _ = primitive.Timestamp{}
