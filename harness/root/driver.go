package lungo

import (
	"context"
	"errors"
	"time"

	"go.mongodb.org/mongo-driver/bson"
	"go.mongodb.org/mongo-driver/mongo"
	"go.mongodb.org/mongo-driver/mongo/options"

	"github.com/256dpi/lungo/internal/vf"
)

var bg = context.Background()

// ---------- C17 at the driver level ----------

// Every value handed back by a call (ids, decoded documents, distinct values) and every argument must
// be disjoint from the engine's state. The codec (Transform/Decode) is stubbed as a copy into fresh
// memory - that is its contract; what lungo itself hands back without the codec is what is checked.
func H_C17_driver() {
	engine, client := mkEngine()
	coll := client.Database("db").Collection("c")
	idTags := uint32(vf.TInt32|vf.TString|vf.TDoc|vf.TArray|vf.TBinary) | vf.Child(vf.TInt32)
	doc := bson.D{{Key: "_id", Value: vf.Value("id", "k", 1, idTags, 1)}, {Key: "a", Value: bson.A{int32(1), bson.D{{Key: "x", Value: int32(2)}}}}}
	switch vf.Choice("call", 5) {
	case 0:
		res, err := coll.InsertOne(bg, doc)
		vf.Assume(err == nil)
		vf.Assert(!vf.Shares(res.InsertedID, engine.Catalog()), "InsertOne: the returned id shares memory with the stored document")
		vf.Assert(!vf.Shares(&doc, engine.Catalog()), "InsertOne: the argument shares memory with the stored document")
	case 1:
		res, err := coll.InsertMany(bg, []interface{}{doc})
		vf.Assume(err == nil)
		vf.Assert(!vf.Shares(res.InsertedIDs, engine.Catalog()), "InsertMany: a returned id shares memory with the stored document")
	case 2:
		upd := bson.D{{Key: "$set", Value: bson.D{{Key: "b", Value: bson.A{int32(7)}}}}}
		res, err := coll.UpdateOne(bg, bson.D{{Key: "_id", Value: doc[0].Value}}, upd, options.Update().SetUpsert(true))
		vf.Assume(err == nil)
		vf.Assert(res.UpsertedID != nil, "upsert did not report an id")
		vf.Assert(!vf.Shares(res.UpsertedID, engine.Catalog()), "UpdateOne(upsert): the returned id shares memory with the stored document")
		vf.Assert(!vf.Shares(&upd, engine.Catalog()), "UpdateOne: the update argument shares memory with the stored document")
	case 3:
		_, err := coll.InsertOne(bg, doc)
		vf.Assume(err == nil)
		vals, err := coll.Distinct(bg, "a", bson.D{})
		vf.Assert(err == nil, "Distinct failed")
		vf.Assert(!vf.Shares(vals, engine.Catalog()), "Distinct: a returned value shares memory with the stored document")
	case 4:
		_, err := coll.InsertOne(bg, doc)
		vf.Assume(err == nil)
		var out bson.D
		err = coll.FindOne(bg, bson.D{}).Decode(&out)
		vf.Assert(err == nil, "FindOne failed")
		vf.Assert(!vf.Shares(&out, engine.Catalog()), "FindOne: the decoded document shares memory with the stored document")
	}
	engine.Close()
}

// ---------- C03(b): atomic visibility of session transactions ----------

func count(coll ICollection, ctx context.Context) int64 {
	n, err := coll.CountDocuments(ctx, bson.D{})
	vf.Assert(err == nil, "CountDocuments failed")
	return n
}

func H_C03_session() {
	engine, client := mkEngine()
	coll := client.Database("db").Collection("c")
	pre := vf.Choice("pre", 2)
	for i := 0; i < pre; i++ {
		_, err := coll.InsertOne(bg, bson.D{{Key: "_id", Value: int32(100 + i)}})
		vf.Assume(err == nil)
	}
	before := engine.Catalog()
	sess, err := client.StartSession()
	vf.Assert(err == nil, "StartSession failed")
	s := sess.(*Session)
	vf.Assert(s.StartTransaction() == nil, "StartTransaction failed")
	sctx := context.WithValue(bg, sessionKey{}, s)
	writes := 1 + vf.Choice("writes", 2)
	deleted := false
	for i := 0; i < writes; i++ {
		if vf.Bool("del"+string(rune('0'+i))) && pre > 0 && !deleted {
			_, err := coll.DeleteOne(sctx, bson.D{{Key: "_id", Value: int32(100)}})
			vf.Assert(err == nil, "delete in transaction failed")
			deleted = true
		} else {
			_, err := coll.InsertOne(sctx, bson.D{{Key: "_id", Value: int32(i)}})
			vf.Assert(err == nil, "insert in transaction failed")
		}
		// the other client sees nothing of it, the transaction sees its own writes
		vf.Assert(count(coll, bg) == int64(pre), "an uncommitted write is visible to another client")
		vf.Assert(engine.Catalog() == before, "an uncommitted write replaced the engine's catalog")
	}
	inside := count(coll, sctx)
	want := int64(pre + writes)
	if deleted {
		want = int64(pre + writes - 2)
	}
	vf.Assert(inside == want, "the transaction does not see its own writes")
	switch vf.Choice("end", 3) {
	case 0:
		vf.Assert(s.CommitTransaction(bg) == nil, "commit failed")
		vf.Assert(count(coll, bg) == want, "after commit the writes are not (all) visible")
	case 1:
		vf.Assert(s.AbortTransaction(bg) == nil, "abort failed")
		vf.Assert(count(coll, bg) == int64(pre), "after abort a write is visible")
		vf.Assert(engine.Catalog() == before, "abort changed the engine's catalog")
	case 2:
		s.EndSession(bg)
		vf.Assert(count(coll, bg) == int64(pre), "after ending the session a write is visible")
		vf.Assert(engine.Catalog() == before, "ending the session changed the engine's catalog")
	}
	// the writer slot is free again
	_, err = coll.InsertOne(bg, bson.D{{Key: "_id", Value: int32(50)}})
	vf.Assert(err == nil, "a write after the transaction failed")
	engine.Close()
}

// ---------- C05 (engine clause): a failing store ----------

type flakyStore struct {
	fail bool
	data *Catalog
}

func (s *flakyStore) Load() (*Catalog, error) { return NewCatalog(), nil }
func (s *flakyStore) Store(c *Catalog) error {
	if s.fail {
		return errors.New("injected store failure")
	}
	s.data = c
	return nil
}

func H_C05_engine() {
	st := &flakyStore{}
	var engine *Engine
	vf.Daemon(func() {
		e, err := CreateEngine(Options{Store: st})
		vf.Assume(err == nil)
		engine = e
	})
	client := &Client{engine: engine}
	coll := client.Database("db").Collection("c")
	pre := vf.Choice("pre", 2)
	for i := 0; i < pre; i++ {
		_, err := coll.InsertOne(bg, bson.D{{Key: "_id", Value: int32(100 + i)}})
		vf.Assume(err == nil)
	}
	persisted := st.data
	before := engine.Catalog()
	st.fail = true
	var err error
	switch vf.Choice("call", 4) {
	case 3:
		// a session transaction whose commit cannot be persisted
		sess, _ := client.StartSession()
		s := sess.(*Session)
		st.fail = false
		vf.Assert(s.StartTransaction() == nil, "StartTransaction failed")
		_, e := coll.InsertOne(context.WithValue(bg, sessionKey{}, s), bson.D{{Key: "_id", Value: int32(9)}})
		vf.Assert(e == nil, "insert in transaction failed")
		st.fail = true
		err = s.CommitTransaction(bg)
	case 0:
		_, err = coll.InsertOne(bg, bson.D{{Key: "_id", Value: int32(1)}})
	case 1:
		_, err = coll.DeleteMany(bg, bson.D{})
		if pre == 0 {
			// nothing to delete: nothing to persist, no error
			vf.Assert(err == nil, "a no-op write failed")
			engine.Close()
			return
		}
	case 2:
		_, err = coll.Indexes().CreateOne(bg, mongoIndex("a"))
	}
	vf.Assert(err != nil, "the commit did not report the store's failure")
	vf.Assert(engine.Catalog() == before, "a commit that could not be persisted became visible")
	vf.Assert(st.data == persisted, "the store holds a state that was reported as failed")
	vf.Assert(count(coll, bg) == int64(pre), "clients see a state that was not persisted")
	// later commits work
	st.fail = false
	_, err = coll.InsertOne(bg, bson.D{{Key: "_id", Value: int32(2)}})
	vf.Assert(err == nil, "a commit after a failed one does not work")
	vf.Assert(st.data == engine.Catalog(), "the visible state ran ahead of the persisted one")
	engine.Close()
}

func mongoIndex(field string) mongo.IndexModel {
	return mongo.IndexModel{Keys: bson.D{{Key: field, Value: int32(1)}}}
}


// ---------- C06 (engine side): what is persisted is what is visible ----------

// After every successful commit the store holds exactly the catalog the engine publishes - also when
// the commit trims the change log (small oplog limits so that retention really removes events).
func H_C06_commit() {
	st := &flakyStore{}
	var engine *Engine
	vf.Daemon(func() {
		e, err := CreateEngine(Options{Store: st, MinOplogSize: 1, MaxOplogSize: 1, MinOplogAge: time.Nanosecond, MaxOplogAge: time.Hour})
		vf.Assume(err == nil)
		engine = e
	})
	client := &Client{engine: engine}
	coll := client.Database("db").Collection("c")
	n := 1 + vf.Choice("n", vf.Param("maxwrites", 3))
	for i := 0; i < n; i++ {
		_, err := coll.InsertOne(bg, bson.D{{Key: "_id", Value: int32(i)}})
		vf.Assert(err == nil, "insert failed")
		vf.Assert(st.data == engine.Catalog(), "the persisted catalog is not the one the engine publishes")
		vf.Assert(len(stOplog(st.data)) == len(stOplog(engine.Catalog())), "the persisted change log differs from the visible one")
	}
	vf.Observe("oplog", int64(len(stOplog(engine.Catalog()))))
	engine.Close()
}
