package lungo

import (
	"context"
	"errors"
	"io"
	"time"

	"go.mongodb.org/mongo-driver/bson"
	"go.mongodb.org/mongo-driver/bson/primitive"
	"go.mongodb.org/mongo-driver/mongo"
	"go.mongodb.org/mongo-driver/mongo/options"

	"github.com/256dpi/lungo/internal/vf"
)

// C18, upload lifecycle: tracked uploads with suspend / resume, abort, a failing marker update in
// Close (what a crash between the final flush and the marker update leaves behind), claim, delete and
// cleanup - against the same mock collections as c18.go plus a mock markers collection.

func (m *mockChunks) DeleteMany(_ context.Context, filter interface{}, _ ...*options.DeleteOptions) (*mongo.DeleteResult, error) {
	fid := filter.(bson.M)["files_id"]
	var kept []BucketChunk
	n := int64(0)
	for _, d := range m.docs {
		if d.File == fid {
			n++
		} else {
			kept = append(kept, d)
		}
	}
	m.docs = kept
	return &mongo.DeleteResult{DeletedCount: n}, nil
}

func (m *mockFiles) DeleteOne(_ context.Context, filter interface{}, _ ...*options.DeleteOptions) (*mongo.DeleteResult, error) {
	id := filter.(bson.M)["_id"]
	for i := range m.docs {
		if m.docs[i].ID == id {
			m.docs = append(append([]BucketFile{}, m.docs[:i]...), m.docs[i+1:]...)
			return &mongo.DeleteResult{DeletedCount: 1}, nil
		}
	}
	return &mongo.DeleteResult{}, nil
}

type mockMarkers struct {
	ICollection
	docs        []BucketMarker
	failReplace bool
}

func (m *mockMarkers) InsertOne(_ context.Context, doc interface{}, _ ...*options.InsertOneOptions) (*mongo.InsertOneResult, error) {
	m.docs = append(m.docs, *doc.(*BucketMarker))
	return &mongo.InsertOneResult{}, nil
}

type mockMarkerResult struct {
	ISingleResult
	marker *BucketMarker
}

func (r *mockMarkerResult) Decode(out interface{}) error {
	if r.marker == nil {
		return mongo.ErrNoDocuments
	}
	c := *r.marker
	switch p := out.(type) {
	case **BucketMarker:
		*p = &c
	case *BucketMarker:
		*p = c
	}
	return nil
}

func (m *mockMarkers) FindOne(_ context.Context, filter interface{}, _ ...*options.FindOneOptions) ISingleResult {
	fid := filter.(bson.M)["files_id"]
	for i := range m.docs {
		if m.docs[i].File == fid {
			return &mockMarkerResult{marker: &m.docs[i]}
		}
	}
	return &mockMarkerResult{}
}

func (m *mockMarkers) ReplaceOne(_ context.Context, filter interface{}, repl interface{}, _ ...*options.ReplaceOptions) (*mongo.UpdateResult, error) {
	if m.failReplace {
		m.failReplace = false
		return nil, errors.New("injected fault: marker update failed")
	}
	id := filter.(bson.M)["_id"].(primitive.ObjectID)
	for i := range m.docs {
		if m.docs[i].ID == id {
			m.docs[i] = *repl.(*BucketMarker)
			return &mongo.UpdateResult{MatchedCount: 1, ModifiedCount: 1}, nil
		}
	}
	return &mongo.UpdateResult{}, nil
}

func (m *mockMarkers) UpdateOne(_ context.Context, filter interface{}, _ interface{}, _ ...*options.UpdateOptions) (*mongo.UpdateResult, error) {
	// the only update the bucket issues: {_id, state} -> $set state: deleted
	f := filter.(bson.M)
	id := f["_id"].(primitive.ObjectID)
	for i := range m.docs {
		if m.docs[i].ID == id && m.docs[i].State == f["state"] {
			m.docs[i].State = BucketMarkerStateDeleted
			return &mongo.UpdateResult{MatchedCount: 1, ModifiedCount: 1}, nil
		}
	}
	return &mongo.UpdateResult{}, nil
}

func (m *mockMarkers) DeleteOne(_ context.Context, filter interface{}, _ ...*options.DeleteOptions) (*mongo.DeleteResult, error) {
	id := filter.(bson.M)["_id"].(primitive.ObjectID)
	for i := range m.docs {
		if m.docs[i].ID == id {
			m.docs = append(append([]BucketMarker{}, m.docs[:i]...), m.docs[i+1:]...)
			return &mongo.DeleteResult{DeletedCount: 1}, nil
		}
	}
	return &mongo.DeleteResult{}, nil
}

type mockMarkerCursor struct {
	ICursor
	list []BucketMarker
	pos  int
}

func (c *mockMarkerCursor) Next(context.Context) bool {
	if c.pos+1 < len(c.list) {
		c.pos++
		return true
	}
	return false
}
func (c *mockMarkerCursor) Err() error                  { return nil }
func (c *mockMarkerCursor) Close(context.Context) error { return nil }
func (c *mockMarkerCursor) Decode(out interface{}) error {
	*out.(*BucketMarker) = c.list[c.pos]
	return nil
}

// Find implements the one query Cleanup issues: deleted markers, and upload markers older than the cut.
func (m *mockMarkers) Find(_ context.Context, filter interface{}, _ ...*options.FindOptions) (ICursor, error) {
	or := filter.(bson.M)["$or"].([]bson.M)
	cut := or[0]["timestamp"].(bson.M)["$lt"].(time.Time)
	var list []BucketMarker
	for _, d := range m.docs {
		if d.State == BucketMarkerStateDeleted || d.Timestamp.Before(cut) {
			list = append(list, d)
		}
	}
	return &mockMarkerCursor{list: list, pos: -1}, nil
}

func storedBytes(chunks *mockChunks, id interface{}) int {
	n := 0
	for _, c := range chunks.docs {
		if c.File == id {
			n += len(c.Data)
		}
	}
	return n
}

// checkStored: file record, chunk numbering and fullness, and a full download through the real
// DownloadStream equal the content
func checkStored(b *Bucket, chunks *mockChunks, files *mockFiles, content []byte, chunkSize int) {
	vf.Assert(len(files.docs) == 1, "exactly one file record expected")
	vf.Assert(files.docs[0].Length == len(content), "file record has the wrong length")
	vf.Assert(files.docs[0].ChunkSize == chunkSize, "file record has the wrong chunk size")
	want := (len(content) + chunkSize - 1) / chunkSize
	vf.Assert(len(chunks.docs) == want, "wrong number of chunks")
	pos := 0
	for i, c := range chunks.docs {
		vf.Assert(c.Num == i, "chunks are not numbered 0..n-1 in upload order")
		if i < want-1 {
			vf.Assert(len(c.Data) == chunkSize, "a chunk other than the last is not full")
		}
		for _, x := range c.Data {
			vf.Assert(pos < len(content) && x == content[pos], "chunk data differs from the uploaded content")
			pos++
		}
	}
	vf.Assert(pos == len(content), "chunks do not cover the content")
	down := &DownloadStream{context: context.Background(), bucket: b, id: "file"}
	buf := make([]byte, len(content)+1)
	got := 0
	for k := 0; k <= len(content)+1; k++ {
		n, err := down.Read(buf[got:])
		got += n
		if err == io.EOF {
			break
		}
		vf.Assert(err == nil, "download failed")
	}
	vf.Assert(got == len(content), "download returned a different number of bytes than were uploaded")
	for i := 0; i < got; i++ {
		vf.Assert(buf[i] == content[i], "download returned different bytes than were uploaded")
	}
}

func H_C18_tracked() {
	content := c18Content()
	chunks, files, markers := &mockChunks{}, &mockFiles{}, &mockMarkers{}
	b := &Bucket{files: files, chunks: chunks, markers: markers, tracked: true}
	chunkSize := 1 + vf.Choice("chunkSize", vf.Param("maxchunk", 3))
	bufSize := 1 + vf.Choice("bufSize", vf.Param("maxbuf", 4))
	vf.Assume(chunkSize <= bufSize)
	newUp := func() *UploadStream {
		return &UploadStream{context: context.Background(), bucket: b, id: "file", name: "f", chunkSize: chunkSize, buffer: make([]byte, bufSize)}
	}
	up := newUp()
	sent := 0 // bytes the store has acknowledged
	cycles := vf.Param("cycles", 1)
	for c := 0; c < cycles; c++ {
		cs := string(rune('0' + c))
		if !vf.Bool("suspend" + cs) {
			break
		}
		cut := sent + vf.Choice("cut"+cs, len(content)-sent+1)
		if vf.Param("emptysuspend", 1) == 0 {
			vf.Assume(cut > 0)
		}
		n, err := up.Write(content[sent:cut])
		vf.Assert(err == nil && n == cut-sent, "Write failed or was short")
		off, err := up.Suspend()
		vf.Assert(err == nil, "Suspend failed")
		vf.Assert(int(off) == storedBytes(chunks, "file"), "Suspend reports a different offset than the bytes stored")
		vf.Assert(int(off) >= sent && int(off) <= cut && int(off)%chunkSize == 0, "Suspend stored something other than the full chunks written so far")
		_, err = up.Write([]byte{1})
		vf.Assert(err != nil, "a suspended stream accepted a write")
		up = newUp()
		off2, err := up.Resume()
		vf.Assert(err == nil, "Resume of a suspended upload failed")
		vf.Assert(off2 == off, "Resume reports a different offset than Suspend")
		sent = int(off)
	}
	n, err := up.Write(content[sent:])
	vf.Assert(err == nil && n == len(content)-sent, "Write failed or was short")
	end := vf.Choice("end", 3)
	vf.Observe("end", int64(end))
	switch end {
	case 0: // finish, claim, optionally delete and clean up
		vf.Assert(up.Close() == nil, "Close failed")
		vf.Assert(len(files.docs) == 0, "a tracked upload created the file before it was claimed")
		vf.Assert(b.ClaimUpload(context.Background(), "file") == nil, "ClaimUpload failed")
		vf.Assert(len(markers.docs) == 0, "the marker survived the claim")
		checkStored(b, chunks, files, content, chunkSize)
		if vf.Bool("delete") {
			vf.Assert(b.Delete(context.Background(), "file") == nil, "Delete failed")
			vf.Assert(b.Cleanup(context.Background(), time.Hour) == nil, "Cleanup failed")
			vf.Assert(len(chunks.docs) == 0 && len(files.docs) == 0 && len(markers.docs) == 0, "a deleted file left chunks, a file record or a marker behind")
		}
	case 1: // abort
		vf.Assert(up.Abort() == nil, "Abort failed")
		vf.Assert(len(chunks.docs) == 0, "an aborted upload left chunks behind")
		vf.Assert(len(markers.docs) == 0 && len(files.docs) == 0, "an aborted upload left a marker or a file behind")
	case 2: // the marker update in Close fails (or the process dies there); a later stream tries to resume
		markers.failReplace = true
		vf.Assert(up.Close() != nil, "Close did not report the failed marker update")
		up = newUp()
		off, err := up.Resume()
		vf.ObserveBool("resumed", err == nil)
		if err == nil {
			vf.Assert(int(off) == storedBytes(chunks, "file"), "Resume reports a different offset than the bytes stored")
			vf.Assert(int(off) <= len(content), "Resume reports more bytes than were written")
			n, err := up.Write(content[off:])
			vf.Assert(err == nil && n == len(content)-int(off), "Write failed or was short")
			vf.Assert(up.Close() == nil, "Close failed")
			vf.Assert(b.ClaimUpload(context.Background(), "file") == nil, "ClaimUpload failed")
			checkStored(b, chunks, files, content, chunkSize)
		} else {
			// refused: the upload can only be aborted / cleaned up; nothing may be left behind then
			vf.Assert(b.Cleanup(context.Background(), -time.Hour) == nil, "Cleanup failed")
			vf.Assert(len(chunks.docs) == 0 && len(markers.docs) == 0, "cleanup left chunks or a marker of the unfinished upload behind")
		}
	}
}

// untracked delete: removes the file record and every chunk; a missing file is reported
func H_C18_delete() {
	content := c18Content()
	b, chunks, files, _ := c18Upload(content)
	// an unrelated file must survive
	chunks.docs = append(chunks.docs, BucketChunk{File: "other", Num: 0, Data: []byte{7}})
	files.docs = append(files.docs, BucketFile{ID: "other", Length: 1, ChunkSize: 1})
	vf.Assert(b.Delete(context.Background(), "file") == nil, "Delete failed")
	vf.Assert(len(chunks.docs) == 1 && chunks.docs[0].File == "other", "Delete left chunks behind or removed another file's chunk")
	vf.Assert(len(files.docs) == 1 && files.docs[0].ID == "other", "Delete left the file record behind or removed another file")
	vf.Assert(b.Delete(context.Background(), "file") == ErrFileNotFound, "deleting a missing file did not return ErrFileNotFound")
	vf.Observe("len", int64(len(content)))
}
