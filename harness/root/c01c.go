package lungo

import (
	"go.mongodb.org/mongo-driver/bson"
	"go.mongodb.org/mongo-driver/mongo"
	"go.mongodb.org/mongo-driver/mongo/options"

	"github.com/256dpi/lungo/bsonkit"
	"github.com/256dpi/lungo/internal/vf"
)

// C01 (second family): multi-item calls, find-one-and-modify variants, index management through the
// driver API and two-call sequences, against the same sequential model as H_C01_call.

func c01Setup() (*Engine, ICollection, *model) {
	engine, client := mkEngine()
	coll := client.Database("db").Collection("c")
	m := &model{}
	n := vf.Choice("n", vf.Param("maxdocs", 2)+1)
	for i := 0; i < n; i++ {
		d := bson.D{{Key: "_id", Value: int32(i)}}
		if vf.Bool("d" + string(rune('0'+i)) + ".hasA") {
			d = append(d, bson.E{Key: "a", Value: c01Val("d" + string(rune('0'+i)) + ".a")})
		}
		_, err := coll.InsertOne(bg, d)
		vf.Assume(err == nil)
		m.docs = append(m.docs, d)
	}
	return engine, coll, m
}

func H_C01_multi() {
	engine, coll, m := c01Setup()
	kind := vf.Param("call", -1)
	if kind < 0 {
		kind = vf.Choice("call", 6)
	}
	switch kind {
	case 0: // InsertMany, ordered or not, with possibly duplicate ids / keys of a unique secondary index
		uniq := vf.Param("uniqa", 0) == 1 && vf.Bool("uniqA")
		if uniq {
			_, err := coll.Indexes().CreateOne(bg, mongo.IndexModel{Keys: bson.D{{Key: "a", Value: int32(1)}}, Options: options.Index().SetUnique(true)})
			vf.Assume(err == nil) // existing documents without duplicates on a
		}
		accepts := func(d bson.D) bool {
			if m.hasID(d[0].Value) {
				return false
			}
			if uniq {
				for i := range m.docs {
					if keysCollide(refKeys(&m.docs[i], "a"), refKeys(&d, "a")) {
						return false
					}
				}
			}
			return true
		}
		d1 := bson.D{{Key: "_id", Value: vf.Int32("m1.id")}, {Key: "a", Value: c01Val("m1.a")}}
		d2 := bson.D{{Key: "_id", Value: vf.Int32("m2.id")}, {Key: "a", Value: c01Val("m2.a")}}
		ordered := vf.Bool("ordered")
		res, err := coll.InsertMany(bg, []interface{}{d1, d2}, options.InsertMany().SetOrdered(ordered))
		ok1 := accepts(d1)
		if ok1 {
			m.docs = append(m.docs, d1)
		}
		ok2 := accepts(d2) && (ok1 || !ordered)
		if ok2 {
			m.docs = append(m.docs, d2)
		}
		if ok1 && ok2 {
			vf.Assert(err == nil, "InsertMany failed although both documents are new")
		} else {
			vf.Assert(err != nil, "InsertMany did not report the duplicate")
		}
		want := 0
		if ok1 {
			want++
		}
		if ok2 {
			want++
		}
		vf.Assert(res != nil && len(res.InsertedIDs) == want, "InsertMany reports a different number of inserted ids than the model")
		if ok1 != ok2 {
			// a rejected item must leave no trace: its _id (and its key) can be used by a later insert
			rej := d2
			if !ok1 {
				rej = d1
			}
			d3 := bson.D{{Key: "_id", Value: rej[0].Value}, {Key: "a", Value: vf.Int32("m3.a")}}
			if vf.Bool("reuseKey") {
				d3 = bson.D{{Key: "_id", Value: vf.Int32("m3.id")}, {Key: "a", Value: rej[1].Value}}
			}
			ok3 := accepts(d3)
			_, err := coll.InsertOne(bg, d3)
			vf.Assert((err == nil) == ok3, "an insert after a partially failed InsertMany is accepted or rejected differently from the model")
			if ok3 {
				m.docs = append(m.docs, d3)
			}
		}
	case 1: // FindOneAndDelete
		q := c01Filter("q")
		hit := m.match(q)
		var out bson.D
		err := coll.FindOneAndDelete(bg, q).Decode(&out)
		if len(hit) == 0 {
			vf.Assert(err == ErrNoDocuments, "FindOneAndDelete without match did not return ErrNoDocuments")
		} else {
			vf.Assert(err == nil, "FindOneAndDelete failed")
			vf.Assert(vf.EqualValues(out, m.docs[hit[0]]), "FindOneAndDelete returned a different document than the model")
			m.docs = append(append([]bson.D{}, m.docs[:hit[0]]...), m.docs[hit[0]+1:]...)
		}
	case 2: // FindOneAndReplace with ReturnDocument and upsert
		q := c01Filter("q")
		repl := bson.D{{Key: "a", Value: c01Val("v")}}
		after := vf.Bool("after")
		rd := options.Before
		if after {
			rd = options.After
		}
		hit := m.match(q)
		var out bson.D
		err := coll.FindOneAndReplace(bg, q, repl, options.FindOneAndReplace().SetReturnDocument(rd)).Decode(&out)
		if len(hit) == 0 {
			vf.Assert(err == ErrNoDocuments, "FindOneAndReplace without match did not return ErrNoDocuments")
		} else {
			vf.Assert(err == nil, "FindOneAndReplace failed")
			i := hit[0]
			before := m.docs[i]
			m.docs[i] = append(bson.D{{Key: "_id", Value: bsonkit.Get(&before, "_id")}}, repl...)
			if after {
				vf.Assert(vf.EqualValues(out, m.docs[i]), "FindOneAndReplace(After) returned a different document than the model")
			} else {
				vf.Assert(vf.EqualValues(out, before), "FindOneAndReplace(Before) returned a different document than the model")
			}
		}
	case 3: // BulkWrite: insert + update-one + delete-one, ordered
		d1 := bson.D{{Key: "_id", Value: vf.Int32("b1.id")}}
		q := c01Filter("q")
		v := vf.Int32("bv")
		models := []mongo.WriteModel{
			mongo.NewInsertOneModel().SetDocument(d1),
			mongo.NewUpdateOneModel().SetFilter(q).SetUpdate(bson.D{{Key: "$set", Value: bson.D{{Key: "b", Value: v}}}}),
			mongo.NewDeleteOneModel().SetFilter(bson.D{{Key: "_id", Value: d1[0].Value}}),
		}
		res, err := coll.BulkWrite(bg, models)
		if m.hasID(d1[0].Value) {
			// ordered: the first error stops the bulk; nothing happens
			vf.Assert(err != nil, "BulkWrite did not report the duplicate")
		} else {
			vf.Assert(err == nil, "BulkWrite failed")
			m.docs = append(m.docs, d1)
			hit := m.match(q)
			var matched, modified int64
			if len(hit) > 0 {
				matched = 1
				before := *bsonkit.Clone(&m.docs[hit[0]])
				_, e := bsonkit.Put(&m.docs[hit[0]], "b", v, false)
				vf.Assume(e == nil)
				if !vf.EqualValues(before, m.docs[hit[0]]) {
					modified = 1
				}
			}
			// delete the inserted document again
			var kept []bson.D
			deleted := int64(0)
			for _, d := range m.docs {
				if deleted == 0 && bsonkit.Compare(bsonkit.Get(&d, "_id"), d1[0].Value) == 0 {
					deleted = 1
					continue
				}
				kept = append(kept, d)
			}
			m.docs = kept
			vf.Assert(res.InsertedCount == 1 && res.MatchedCount == matched && res.ModifiedCount == modified && res.DeletedCount == deleted, "BulkWrite counts differ from the model")
		}
	case 4: // index management: create (unique), list, duplicate insert, drop
		iv := coll.Indexes()
		uniq := vf.Bool("unique")
		name, err := iv.CreateOne(bg, mongo.IndexModel{Keys: bson.D{{Key: "a", Value: int32(1)}}, Options: options.Index().SetUnique(uniq)})
		dupInModel := false
		if uniq {
			for i := range m.docs {
				for j := i + 1; j < len(m.docs); j++ {
					if keysCollide(refKeys(&m.docs[i], "a"), refKeys(&m.docs[j], "a")) {
						dupInModel = true
					}
				}
			}
		}
		if dupInModel {
			vf.Assert(err != nil, "a unique index was built over duplicate keys")
		} else {
			vf.Assert(err == nil && name == "a_1", "index creation failed or returned a different name")
			// creating it again with the same definition is a no-op
			name2, err2 := iv.CreateOne(bg, mongo.IndexModel{Keys: bson.D{{Key: "a", Value: int32(1)}}, Options: options.Index().SetUnique(uniq)})
			vf.Assert(err2 == nil && name2 == "a_1", "re-creating an identical index failed")
			// a conflicting definition fails
			_, err3 := iv.CreateOne(bg, mongo.IndexModel{Keys: bson.D{{Key: "a", Value: int32(1)}}, Options: options.Index().SetUnique(!uniq)})
			vf.Assert(err3 != nil, "a conflicting index definition was accepted")
			// dropping all indexes keeps _id_
			_, err4 := iv.DropAll(bg)
			vf.Assert(err4 == nil, "DropAll failed")
			cur, err5 := iv.List(bg)
			vf.Assert(err5 == nil, "List failed")
			var specs []bson.D
			vf.Assert(cur.All(bg, &specs) == nil, "cursor.All failed")
			vf.Assert(len(specs) == 1 && vf.EqualValues(bsonkit.Get(&specs[0], "name"), "_id_"), "DropAll did not leave exactly the _id index")
		}
	case 5: // two calls: a failed insert, then an upsert through UpdateOne, then an update
		if len(m.docs) > 0 {
			_, err := coll.InsertOne(bg, bson.D{{Key: "_id", Value: int32(0)}})
			vf.Assert(err != nil, "duplicate insert accepted")
		}
		id := vf.Int32("up.id")
		v := vf.Int32("up.v")
		res, err := coll.UpdateOne(bg, bson.D{{Key: "_id", Value: id}}, bson.D{{Key: "$set", Value: bson.D{{Key: "b", Value: v}}}}, options.Update().SetUpsert(true))
		vf.Assert(err == nil, "upsert failed")
		if m.hasID(id) {
			vf.Assert(res.MatchedCount == 1 && res.UpsertedCount == 0, "upsert on an existing document did not match it")
			for i := range m.docs {
				if bsonkit.Compare(bsonkit.Get(&m.docs[i], "_id"), id) == 0 {
					bsonkit.Put(&m.docs[i], "b", v, false)
				}
			}
		} else {
			vf.Assert(res.UpsertedCount == 1 && vf.EqualValues(res.UpsertedID, id), "upsert did not insert a document with the filter's _id")
			m.docs = append(m.docs, bson.D{{Key: "_id", Value: id}, {Key: "b", Value: v}})
		}
		res2, err := coll.UpdateMany(bg, bson.D{}, bson.D{{Key: "$inc", Value: bson.D{{Key: "c", Value: int32(1)}}}})
		vf.Assert(err == nil && res2.MatchedCount == int64(len(m.docs)) && res2.ModifiedCount == int64(len(m.docs)), "UpdateMany after the upsert differs from the model")
		for i := range m.docs {
			bsonkit.Increment(&m.docs[i], "c", int32(1))
		}
	}
	vf.Assert(sameModel(allDocs(coll), m.docs), "the contents of the collection differ from the model after the call")
	engine.Close()
}
