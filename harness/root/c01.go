package lungo

import (
	"context"

	"go.mongodb.org/mongo-driver/bson"

	"github.com/256dpi/lungo/internal/vf"
)

func mkEngine() (*Engine, IClient) {
	var client IClient
	var engine *Engine
	vf.Daemon(func() {
		c, e, err := Open(context.Background(), Options{Store: NewMemoryStore()})
		vf.Assume(err == nil)
		client, engine = c, e
	})
	return engine, client
}

func H_SMOKE_engine() {
	engine, client := mkEngine()
	coll := client.Database("db").Collection("c")
	res, err := coll.InsertOne(context.Background(), bson.D{{Key: "a", Value: vf.Int32("a")}})
	vf.Assert(err == nil, "insert failed")
	vf.Assert(res.InsertedID != nil, "no inserted id")
	n, err := coll.CountDocuments(context.Background(), bson.D{})
	vf.Assert(err == nil && n == 1, "count is not 1")
	engine.Close()
}
