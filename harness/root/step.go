package lungo

import (
	"go.mongodb.org/mongo-driver/bson"
	"go.mongodb.org/mongo-driver/bson/primitive"

	"github.com/256dpi/lungo/bsonkit"
	"github.com/256dpi/lungo/internal/vf"
	"github.com/256dpi/lungo/mongokit"
)

// One inductive step: canonical state -> one symbolic write -> assertions selected by "prop".
const (
	pC15 = 1
	pC07 = 2
	pC02 = 4
	pC08 = 8
	pC03 = 16
)

func tsOf(ev bsonkit.Doc) primitive.Timestamp {
	ts, _ := bsonkit.Get(ev, "_id.ts").(primitive.Timestamp)
	return ts
}

func tsLess(a, b primitive.Timestamp) bool {
	return a.T < b.T || a.T == b.T && a.I < b.I
}

func findByID(list bsonkit.List, id interface{}) bsonkit.Doc {
	for _, d := range list {
		if bsonkit.Compare(bsonkit.Get(d, "_id"), id) == 0 {
			return d
		}
	}
	return nil
}

// replayEvents applies change events to a list of documents (insert/replace/update set the full
// document under its key, delete removes it).
func replayEvents(list bsonkit.List, events bsonkit.List) bsonkit.List {
	out := append(bsonkit.List{}, list...)
	for _, ev := range events {
		op, _ := bsonkit.Get(ev, "operationType").(string)
		key := bsonkit.Get(ev, "documentKey._id")
		switch op {
		case "insert":
			full := bsonkit.Get(ev, "fullDocument").(bson.D)
			out = append(out, &full)
		case "replace", "update":
			full := bsonkit.Get(ev, "fullDocument").(bson.D)
			for i, d := range out {
				if bsonkit.Compare(bsonkit.Get(d, "_id"), key) == 0 {
					out[i] = &full
				}
			}
		case "delete":
			kept := out[:0:0]
			for _, d := range out {
				if bsonkit.Compare(bsonkit.Get(d, "_id"), key) != 0 {
					kept = append(kept, d)
				}
			}
			out = kept
		}
	}
	return out
}

func sameContents(a, b bsonkit.List) bool {
	if len(a) != len(b) {
		return false
	}
	for i := range a {
		if !vf.EqualValues(*a[i], *b[i]) {
			return false
		}
	}
	return true
}

func H_STEP() {
	prop := vf.Param("prop", pC15|pC07|pC02|pC08)
	txn, idx := stState()
	before := txn.Catalog()
	beforeDocs := append(bsonkit.List{}, stDocs(txn)...)
	beforeLog := append(bsonkit.List{}, stOplog(before)...)
	dirtyBefore := txn.Dirty()
	if prop&pC07 != 0 {
		vf.Assume(!hasDuplicate(beforeDocs, idx)) // holds for every state built through the API (checked as post-condition below)
	}
	if prop&(pC02|pC03) != 0 {
		// the catalog a reader may hold (engine.Catalog(), a cursor, a read-only transaction) must
		// never be written to again, whatever the operation and its outcome
		vf.Freeze(before, "catalog snapshot taken before the write")
	}
	var out opOutcome
	if vf.Param("ops", 1) == 2 && prop == pC03 {
		out = runOpKind(txn, []int{opDelete, opInsert}[vf.Choice("op1", 2)])
	} else {
		out = runOp(txn)
	}
	if vf.Param("ops", 1) == 2 && prop == pC03 {
		// a second write while the reader still holds its snapshot (e.g. delete the newest document,
		// then insert: structures shared between catalog generations must never be written in place)
		k2 := []int{opInsert, opUpdateOne, opDelete}[vf.Choice("op2", 3)]
		runOp2(txn, k2)
	}
	if prop&(pC02|pC03) != 0 {
		vf.Unfreeze()
	}
	if prop&pC03 != 0 {
		// reading through the snapshot again yields what it yielded when it was taken
		var snapDocs bsonkit.List
		if ns := before.Namespaces[hMain]; ns != nil {
			snapDocs = ns.Documents.List
		}
		vf.Assert(sameDocs(snapDocs, beforeDocs), "the snapshot's document list changed")
		vf.Assert(len(stOplog(before)) == len(beforeLog), "the snapshot's change log changed")
		for i, ev := range stOplog(before) {
			vf.Assert(ev == beforeLog[i], "the snapshot's change log changed")
		}
	}
	after := txn.Catalog()
	afterDocs := stDocs(txn)
	afterLog := stOplog(after)
	vf.ObserveBool("err", out.err != nil)

	if prop&pC15 != 0 {
		coherent(after, "after the write")
	}
	if prop&pC02 != 0 && out.kind == opInsertMany && out.err == nil {
		// exactly the items that individually succeed take effect: a prefix when ordered, every valid
		// item when unordered; a failing item contributes nothing
		modelDocs := append(bsonkit.List{}, beforeDocs...)
		taken := 0
		for _, it := range out.items {
			if hasDuplicate(append(append(bsonkit.List{}, modelDocs...), it), idx) {
				if out.ordered {
					break
				}
				continue
			}
			modelDocs = append(modelDocs, it)
			taken++
		}
		vf.Assert(len(afterDocs) == len(beforeDocs)+taken, "insert-many stored a different number of documents than the items that individually succeed")
		vf.Assert((out.res.Error != nil) == (taken < len(out.items)), "insert-many reports an error although every item succeeded, or none although one failed")
		vf.Assert(len(afterLog) == len(beforeLog)+taken, "insert-many logged a different number of events than documents stored")
	}
	if prop&pC02 != 0 && out.err != nil {
		vf.Assert(after == before, "a failed write replaced the catalog")
		vf.Assert(txn.Dirty() == dirtyBefore, "a failed write changed the dirty flag")
		vf.Assert(len(afterLog) == len(beforeLog), "a failed write logged an event")
		vf.Assert(sameDocs(afterDocs, beforeDocs), "a failed write changed the collection")
	}
	if prop&pC07 != 0 {
		if out.err == nil {
			vf.Assert(!hasDuplicate(afterDocs, idx), "two documents under a unique index share a key")
		} else {
			uniq := IsUniquenessError(out.err)
			vf.ObserveBool("uniq", uniq)
			// exactness: a write is rejected for uniqueness only if it would create a duplicate
			if uniq && out.kind == opInsert && out.inserted != nil {
				vf.Assert(hasDuplicate(append(append(bsonkit.List{}, beforeDocs...), out.inserted), idx), "an insert that creates no duplicate key was rejected with a uniqueness error")
			}
			if uniq && (out.kind == opUpdateOne || out.kind == opUpdateMany) {
				// model: apply the update to (clones of) the matching documents
				var post bsonkit.List
				hit := 0
				modelOK := true
				for _, d := range beforeDocs {
					m, err := mongokit.Match(d, out.q)
					if err == nil && m && (out.kind == opUpdateMany || hit == 0) {
						hit++
						c := bsonkit.Clone(d)
						if _, err := mongokit.Apply(c, out.q, out.u, false, nil); err != nil {
							modelOK = false
						}
						post = append(post, c)
					} else {
						post = append(post, d)
					}
				}
				if modelOK {
					vf.Assert(hasDuplicate(post, idx), "an update that creates no duplicate key was rejected with a uniqueness error")
				}
			}
		}
	}
	if prop&pC08 != 0 {
		newEvents := afterLog[len(beforeLog):]
		// old events are untouched and stay in front
		for i := range beforeLog {
			vf.Assert(afterLog[i] == beforeLog[i], "an existing event was replaced or moved")
		}
		if out.err != nil {
			vf.Assert(len(newEvents) == 0, "a failed call logged an event")
		} else {
			// strictly increasing ids, above everything logged before
			var last primitive.Timestamp
			if len(beforeLog) > 0 {
				last = tsOf(beforeLog[len(beforeLog)-1])
			}
			for _, ev := range newEvents {
				ts := tsOf(ev)
				vf.Assert(tsLess(last, ts), "event ids are not strictly increasing")
				last = ts
			}
			// replaying the new events on the old contents yields the new contents
			replayed := replayEvents(beforeDocs, newEvents)
			vf.Assert(len(replayed) == len(afterDocs), "replaying the logged events yields a different number of documents")
			for _, d := range afterDocs {
				r := findByID(replayed, bsonkit.Get(d, "_id"))
				vf.Assert(r != nil && vf.EqualValues(*r, *d), "replaying the logged events does not reproduce a document")
			}
			// update events: applying updatedFields / removedFields to the previous version of the
			// document yields the new version (up to field order)
			running := append(bsonkit.List{}, beforeDocs...)
			for _, ev := range newEvents {
				prev := running
				running = replayEvents(running, bsonkit.List{ev})
				if op, _ := bsonkit.Get(ev, "operationType").(string); op != "update" {
					continue
				}
				old := findByID(prev, bsonkit.Get(ev, "documentKey._id"))
				full, ok := bsonkit.Get(ev, "fullDocument").(bson.D)
				vf.Assert(old != nil && ok, "an update event does not refer to an existing document")
				patched := bsonkit.Clone(old)
				if upd, ok := bsonkit.Get(ev, "updateDescription.updatedFields").(bson.D); ok {
					for _, f := range upd {
						_, err := bsonkit.Put(patched, f.Key, f.Value, false)
						vf.Assert(err == nil, "an updated field of an update event cannot be applied")
					}
				}
				if rem, ok := bsonkit.Get(ev, "updateDescription.removedFields").(bson.A); ok {
					for _, r := range rem {
						if path, ok := r.(string); ok {
							bsonkit.Unset(patched, path)
						}
					}
				}
				vf.Assert(sameFields(*patched, full), "applying the recorded updated/removed fields to the previous version does not yield the new version")
			}
			// exactly one event per modified document; none for documents that did not change
			changed := 0
			for _, d := range afterDocs {
				old := findByID(beforeDocs, bsonkit.Get(d, "_id"))
				if old == nil || !vf.EqualValues(*old, *d) {
					changed++
				}
			}
			for _, d := range beforeDocs {
				if findByID(afterDocs, bsonkit.Get(d, "_id")) == nil {
					changed++
				}
			}
			if !out.multi {
				vf.Assert(len(newEvents) == changed, "number of logged events differs from the number of changed documents")
			} else {
				// several items may touch the same document: at least one event per changed document
				vf.Assert(len(newEvents) >= changed, "a changed document has no event")
			}
		}
	}
}

// sameFields: equal as sets of top-level fields (order-insensitive), values bit-identical
func sameFields(a, b bson.D) bool {
	if len(a) != len(b) {
		return false
	}
	for _, e := range a {
		found := false
		for _, f := range b {
			if e.Key == f.Key && vf.EqualValues(e.Value, f.Value) {
				found = true
			}
		}
		if !found {
			return false
		}
	}
	return true
}

func sameDocs(a, b bsonkit.List) bool {
	if len(a) != len(b) {
		return false
	}
	for i := range a {
		if a[i] != b[i] {
			return false
		}
	}
	return true
}
