package dbkit

import (
	"strings"

	"github.com/256dpi/lungo/internal/vf"
)

// C05: AtomicWriteFile under the symbolic file-system model (engine/fs.go). The crash point (which
// call is the last to complete, incl. a crash in the middle of the write), one injected failing call,
// the prior disk state (target present or not, stale temporary file present or not) and what an
// un-fsynced file or directory retains after power loss are all symbolic.
//
// Content codes: -1 absent, 0 empty, 1 old image, 2 new image, 3 partial/torn.

const c05Path = "/data/db.bson"

func H_C05_atomic() {
	hadOld := vf.Bool("hadOld")
	if hadOld {
		vf.FS("seed-old", c05Path)
	}
	if vf.Bool("staleTmp") {
		vf.FS("seed-stale", c05Path+".tmp")
	}
	var err error
	returned := false
	crashed := vf.RunUntilCrash(func() {
		err = AtomicWriteFile(c05Path, strings.NewReader("new image"), 0)
		returned = true
	})
	vf.ObserveBool("crashed", crashed)
	vf.Observe("steps", int64(vf.FS("steps", "")))
	if !crashed {
		vf.Assert(returned, "AtomicWriteFile did not return")
		now := vf.FS("content", c05Path)
		if err != nil {
			// an error leaves the visible target complete: the old image, or - when only the final
			// directory sync failed - already the new one; never a torn file
			if hadOld {
				vf.Assert(now == 1 || now == 2, "a failed write left a torn target file")
			} else {
				vf.Assert(now == -1 || now == 2, "a failed write left a torn target file")
			}
		} else {
			vf.Assert(now == 2, "a successful write does not show the new image")
		}
	}
	// power loss now (after the crash, or at any time after the call returned)
	after := vf.FS("after-crash", c05Path)
	vf.Observe("after", int64(after))
	if hadOld {
		vf.Assert(after == 1 || after == 2, "after a crash the store file is neither the old nor the new image")
	} else {
		vf.Assert(after == -1 || after == 2, "after a crash a torn or empty store file exists")
	}
	if !crashed && err == nil {
		vf.Assert(after == 2, "a write that reported success was lost by a later crash")
	}
}

// a stale temporary file (left by an earlier crash) never makes the next write fail
func H_C05_stale() {
	vf.FS("seed-old", c05Path)
	vf.FS("seed-stale", c05Path+".tmp")
	err := AtomicWriteFile(c05Path, strings.NewReader("new image"), 0)
	vf.Assert(err == nil, "a stale temporary file made the write fail")
	vf.Assert(vf.FS("content", c05Path) == 2, "the target does not hold the new image")
	vf.Assert(vf.FS("content", c05Path+".tmp") == -1, "the temporary file was left behind")
	vf.Assert(vf.FS("after-crash", c05Path) == 2, "a write that reported success was lost by a later crash")
}
