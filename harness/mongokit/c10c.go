package mongokit

import (
	"go.mongodb.org/mongo-driver/bson"

	"github.com/256dpi/lungo/bsonkit"
	"github.com/256dpi/lungo/internal/vf"
)

// C10 oracle: $all, $elemMatch, $mod and the $bits family on a field that is missing, a scalar, or an
// array of scalars / small documents (reference semantics from the MongoDB manual).

func c10Field(id string) (bson.D, interface{}, bool) {
	if vf.Bool(id + ".missing") {
		return bson.D{{Key: "b", Value: int32(1)}}, nil, true
	}
	v := vf.Value(id, "x", 2, uint32(vf.Param("ftags", vf.TNull|vf.TInt32|vf.TString|vf.TArray))|vf.Child(uint32(vf.Param("fctags", vf.TInt32|vf.TString))), 1)
	return bson.D{{Key: "a", Value: v}}, v, false
}

// $all: [v1, v2]: the field (or, for an array, its set of elements) contains every listed value
func H_C10_refall() {
	doc, fv, missing := c10Field("f")
	v1 := vf.Value("v", "", 0, vf.TInt32|vf.TString, 0)
	v2 := vf.Value("w", "", 0, vf.TInt32|vf.TString|vf.TNull, 0)
	want := false
	if !missing {
		has := func(x interface{}) bool {
			if arr, ok := fv.(bson.A); ok {
				for _, e := range arr {
					if bsonkit.Compare(e, x) == 0 {
						return true
					}
				}
				return false
			}
			return bsonkit.Compare(fv, x) == 0
		}
		want = has(v1) && has(v2)
	}
	got, err := match2(doc, bson.D{{Key: "a", Value: bson.D{{Key: "$all", Value: bson.A{v1, v2}}}}})
	vf.ObserveBool("got", got)
	vf.Assert(!err, "$all returned an error")
	vf.Assert(got == want, "$all differs from the reference semantics")
}

// $elemMatch: {$gte: c, $lt: d}: some element of the array satisfies all conditions
func H_C10_refelem() {
	doc, fv, missing := c10Field("f")
	c, d := vf.Int32("c"), vf.Int32("d")
	want := false
	if arr, ok := fv.(bson.A); ok && !missing {
		for _, e := range arr {
			if x, ok := e.(int32); ok && x >= c && x < d {
				want = true
			}
		}
	}
	got, err := match2(doc, bson.D{{Key: "a", Value: bson.D{{Key: "$elemMatch", Value: bson.D{{Key: "$gte", Value: c}, {Key: "$lt", Value: d}}}}}})
	vf.ObserveBool("got", got)
	vf.Assert(!err, "$elemMatch returned an error")
	vf.Assert(got == want, "$elemMatch differs from the reference semantics")
}

// $mod with small divisors, $bitsAllSet / $bitsAnySet with small masks on int32 / int64 fields
func H_C10_refnum() {
	var fv interface{}
	if vf.Bool("wide") {
		fv = vf.Int64("f64")
	} else {
		fv = vf.Int32("f32")
	}
	doc := bson.D{{Key: "a", Value: fv}}
	if vf.Bool("inArray") {
		doc = bson.D{{Key: "a", Value: bson.A{"s", fv}}}
	}
	var x int64
	switch n := fv.(type) {
	case int32:
		x = int64(n)
	case int64:
		x = n
	}
	which := vf.Choice("which", 3)
	switch which {
	case 0:
		div := int64(1 + vf.Choice("divisor", 4))
		if vf.Bool("negdiv") {
			div = -div
		}
		rem := int64(vf.Choice("remainder", 4)) - 1
		// bound: |field| < 2^20 keeps the 64-bit remainder within reach of the solver
		vf.Assume(x > -1048576 && x < 1048576)
		got, err := match2(doc, bson.D{{Key: "a", Value: bson.D{{Key: "$mod", Value: bson.A{div, rem}}}}})
		vf.ObserveBool("got", got)
		vf.Assert(!err, "$mod returned an error")
		vf.Assert(got == (x%div == rem), "$mod differs from the reference semantics")
	case 1, 2:
		mask := int64(vf.Choice("mask", 8)) // bits 0..2
		op := "$bitsAllSet"
		want := uint64(x)&uint64(mask) == uint64(mask)
		if which == 2 {
			op = "$bitsAnyClear"
			want = ^uint64(x)&uint64(mask) != 0
		}
		got, err := match2(doc, bson.D{{Key: "a", Value: bson.D{{Key: op, Value: mask}}}})
		vf.ObserveBool("got", got)
		vf.Assert(!err, "$bits operator returned an error")
		vf.Assert(got == want, "$bits operator differs from the reference semantics")
	}
}
