package mongokit

import (
	"strings"

	"go.mongodb.org/mongo-driver/bson"
	"go.mongodb.org/mongo-driver/bson/primitive"

	"github.com/256dpi/lungo/bsonkit"
	"github.com/256dpi/lungo/internal/vf"
)

// C20: well-formed input never panics. Every harness calls the real entry point with operator
// arguments that are symbolic values of any supported type at any position (shape pools are chosen
// per operator family so that every argument shape an operator inspects is in the domain); an
// uncaught Go panic on any path is the violation (reported with the panicking source position and
// replayed natively).

const c20Paths = "a,a.b,a.0,,.,$,a.1.b,a.,.a,a.$[],0,b"

// pick chooses from a pool: a fixed member when the harness parameter is set, symbolic otherwise.
func pick(id, pool string) string {
	members := strings.Split(pool, ",")
	if k := vf.Param(id, -1); k >= 0 {
		return members[k%len(members)]
	}
	// quick tier: only the first <id>_n members of the pool
	if n := vf.Param(id+"_n", 0); n > 0 && n < len(members) {
		return vf.String(id, strings.Join(members[:n], ","))
	}
	return vf.String(id, pool)
}

// top-level values range over every supported type; values nested inside them over a smaller set
// (Compare over all type pairs, including nested ones, is C12's subject)
func c20Tags() uint32 {
	return uint32(vf.Param("tags", vf.TAll)) | vf.Child(uint32(vf.Param("ctags", vf.TNull|vf.TInt32|vf.TDouble|vf.TString|vf.TArray|vf.TDoc)))
}

// Each run makes either the document or the operator argument structurally rich and keeps the other
// one a scalar of any type (bound: interactions that need BOTH a container-valued field and a
// container-valued argument are explored only when the harness parameter "both" is set).
var richDoc bool

func c20Mode() {
	richDoc = vf.Param("both", 0) == 0 && vf.Bool("richdoc")
}

// the document under operation: {} or {a: X}, X any value
func c20Doc(id string) bson.D {
	if vf.Bool(id + ".empty") {
		return bson.D{}
	}
	depth := vf.Param("ddepth", 1)
	if vf.Param("both", 0) == 0 && !richDoc {
		depth = 0
	}
	return bson.D{{Key: "a", Value: vf.Value(id+".a", "a,b", 2, c20Tags(), depth)}}
}

func c20Val(id, keys string, maxLen, depth int) interface{} {
	if vf.Param("both", 0) == 0 && richDoc {
		depth = 0
	}
	return vf.Value(id, keys, maxLen, c20Tags(), depth)
}

func c20Match(doc bson.D, q bson.D) {
	_, err := Match(&doc, &q)
	vf.ObserveBool("err", err != nil)
	vf.Assert(true, "no panic")
}

// query operators whose argument is a value, an array of values, a number or a type name
func H_C20_match_leaf() {
	c20Mode()
	doc := c20Doc("d")
	p := pick("path", c20Paths)
	op := pick("op", "$eq,$gt,$lte,$ne,$in,$nin,$exists,$type,$all,$size,$unknown,")
	v := c20Val("v", "a", 2, vf.Param("vdepth", 1))
	c20Match(doc, bson.D{{Key: p, Value: bson.D{{Key: op, Value: v}}}})
}

// smallNumber constrains a numeric value to a handful of magnitudes (small, zero, extreme, non-finite):
// loops whose trip count or whose solver cost grows with the magnitude ($bits masks, $mod divisors)
// are explored for these representatives only (stated bound).
func smallNumber(v interface{}) {
	switch x := v.(type) {
	case int32:
		vf.Assume(x >= -2 && x <= 5 || x == -2147483648 || x == 2147483647)
	case int64:
		vf.Assume(x >= -2 && x <= 5 || x == -9223372036854775808 || x == 9223372036854775807)
	case float64:
		vf.Assume(x != x || x == 0 || x == 1 || x == 2.5 || x == -1 || x == 3 || x == 0.5 || x == -0.5 || x == 9223372036854775808.0 || x == -9223372036854775808.0 || x > 1e308 || x < -1e308)
	case primitive.Binary:
		for _, b := range x.Data {
			vf.Assume(b < 4)
		}
	case bson.A:
		for _, e := range x {
			smallNumber(e)
		}
	}
}

func tinyNumber(v interface{}) {
	switch x := v.(type) {
	case int32:
		vf.Assume(x >= -1 && x <= 5)
	case int64:
		vf.Assume(x >= -1 && x <= 5)
	case float64:
		vf.Assume(x != x || x == 0 || x == 1 || x == 2.5 || x == -1 || x == 5 || x > 1e308)
	case primitive.Binary:
		for _, b := range x.Data {
			vf.Assume(b < 4)
		}
	case bson.A:
		for _, e := range x {
			tinyNumber(e)
		}
	}
}

// $bits* and $mod: numeric arguments restricted to representative magnitudes
func H_C20_match_num() {
	c20Mode()
	doc := c20Doc("d")
	p := pick("path", "a,a.0,,b")
	op := pick("op", "$bitsAllClear,$bitsAllSet,$bitsAnyClear,$bitsAnySet,$mod")
	v := c20Val("v", "a", 2, 1)
	if op == "$mod" {
		smallNumber(v)
		if len(doc) > 0 {
			smallNumber(doc[0].Value)
		}
	} else {
		// every set bit of the mask is one symbolic test of the field: masks of at most 3 bits
		tinyNumber(v)
	}
	c20Match(doc, bson.D{{Key: p, Value: bson.D{{Key: op, Value: v}}}})
}

// query operators whose argument is itself an expression / query document
func H_C20_match_nested() {
	c20Mode()
	doc := c20Doc("d")
	p := pick("path", "a,a.b,a.0,,.,$")
	op := pick("op", "$not,$elemMatch")
	v := c20Val("v", "$gt,$in,a,$not", 2, 2)
	c20Match(doc, bson.D{{Key: p, Value: bson.D{{Key: op, Value: v}}}})
}

// top level operators and implicit equality with any value (incl. operator-looking documents)
func H_C20_match_top() {
	c20Mode()
	doc := c20Doc("d")
	v := c20Val("v", "a,$gt,$or,$and", 2, 2)
	if vf.Bool("implicit") {
		c20Match(doc, bson.D{{Key: pick("path", c20Paths), Value: v}})
	} else {
		c20Match(doc, bson.D{{Key: pick("top", "$and,$or,$nor,$bogus"), Value: v}})
	}
}

func c20Apply(doc bson.D, upd bson.D, filters bsonkit.List, upsert bool) {
	query := bson.D{}
	_, err := Apply(&doc, &query, &upd, upsert, filters)
	vf.ObserveBool("err", err != nil)
	vf.Assert(true, "no panic")
}

// update operators whose argument is an opaque value, a number, a path string or an array
func H_C20_apply_basic() {
	c20Mode()
	doc := c20Doc("d")
	p := pick("path", c20Paths)
	op := pick("op", "$set,$setOnInsert,$unset,$rename,$inc,$mul,$max,$min,$pop,$pullAll,$unknown")
	v := c20Val("v", "a", 2, vf.Param("vdepth", 1))
	c20Apply(doc, bson.D{{Key: op, Value: bson.D{{Key: p, Value: v}}}}, nil, vf.Bool("upsert"))
}

// $push / $addToSet with modifier documents
func H_C20_apply_push() {
	c20Mode()
	doc := c20Doc("d")
	p := pick("path", "a,a.b,a.0,b,")
	op := pick("op", "$push,$addToSet")
	// modifier document assembled from optional parts, each part a value of any type
	var v interface{}
	if vf.Bool("plain") {
		v = c20Val("v", "a,$each", 2, 1)
	} else {
		spec := bson.D{{Key: "$each", Value: c20Val("each", "a", 2, 1)}}
		if vf.Bool("hasPos") {
			spec = append(spec, bson.E{Key: "$position", Value: c20Val("pos", "a", 1, 0)})
		}
		if vf.Bool("hasSort") {
			spec = append(spec, bson.E{Key: "$sort", Value: c20Val("sort", "a,b", 2, 1)})
		}
		if vf.Bool("hasSlice") {
			spec = append(spec, bson.E{Key: "$slice", Value: c20Val("slice", "a", 1, 0)})
		}
		if vf.Bool("hasBogus") {
			spec = append(spec, bson.E{Key: "$bogus", Value: int32(1)})
		}
		v = spec
	}
	c20Apply(doc, bson.D{{Key: op, Value: bson.D{{Key: p, Value: v}}}}, nil, false)
}

// $pull (argument is a value or a query), $bit, $currentDate (argument is a small spec document)
func H_C20_apply_spec() {
	c20Mode()
	doc := c20Doc("d")
	p := pick("path", "a,a.b,a.0,b,")
	op := pick("op", "$pull,$bit,$currentDate")
	keys := "a,$gt,$in,$bogus," // incl. the empty key
	if op != "$pull" {
		keys = "and,or,xor,$type,a,"
	}
	v := c20Val("v", keys, 2, 2)
	c20Apply(doc, bson.D{{Key: op, Value: bson.D{{Key: p, Value: v}}}}, nil, false)
}

// the update document itself is arbitrary: {op: V} and an arbitrary top-level document
func H_C20_apply_raw() {
	c20Mode()
	doc := c20Doc("d")
	if vf.Bool("whole") {
		upd := vf.Doc("u", "$set,$inc,a,$push", 2, c20Tags(), 1)
		c20Apply(doc, upd, nil, false)
		return
	}
	op := pick("op", "$set,$unset,$rename,$inc,$push,$pop,$pull,$bit,$currentDate,$unknown")
	v := c20Val("v", "a,,.", 2, 1)
	c20Apply(doc, bson.D{{Key: op, Value: v}}, nil, false)
}

// positional paths with array filters
func H_C20_apply_filters() {
	doc := vf.Doc("d", "a", 1, c20Tags(), 2)
	p := pick("path", "a.$[x],a.$[x].b,a.$[],a.$[y],a.$[x].$[x],$[x],a.$[")
	op := pick("op", "$set,$inc,$unset")
	v := c20Val("v", "a", 1, 0)
	var filters bsonkit.List
	if vf.Bool("af") {
		f := vf.Doc("f", "x,x.b,y,$and", 1, c20Tags(), 1)
		filters = bsonkit.List{&f}
	}
	c20Apply(doc, bson.D{{Key: op, Value: bson.D{{Key: p, Value: v}}}}, filters, false)
}

func H_C20_project() {
	doc := vf.Doc("d", "a,_id", 2, c20Tags(), vf.Param("ddepth", 1))
	p := pick("path", "a,a.b,a.0,,.,_id,$")
	var proj bson.D
	switch vf.Choice("shape", 4) {
	case 0:
		proj = bson.D{{Key: p, Value: c20Val("v", "a", 2, 1)}}
	case 1:
		proj = bson.D{{Key: p, Value: bson.D{{Key: pick("pop", "$slice,$bogus"), Value: c20Val("v", "a", 2, 1)}}}}
	case 2:
		proj = bson.D{{Key: p, Value: bson.D{{Key: "$elemMatch", Value: c20Val("v", "$gt,a,$bogus", 2, 2)}}}}
	case 3:
		proj = bson.D{{Key: p, Value: c20Val("v", "a", 1, 0)}, {Key: "b", Value: c20Val("w", "a", 1, 0)}}
	}
	_, err := Project(&doc, &proj)
	vf.ObserveBool("err", err != nil)
	vf.Assert(true, "no panic")
}

func H_C20_sort() {
	c20Mode()
	d1 := c20Doc("d")
	d2 := c20Doc("e")
	p := pick("path", c20Paths)
	v := c20Val("v", "a", 1, 0)
	spec := bson.D{{Key: p, Value: v}}
	list := bsonkit.List{&d1, &d2}
	_, err := Sort(list, &spec)
	vf.ObserveBool("err", err != nil)
	_ = Distinct(list, p)
	q := bson.D{{Key: p, Value: c20Val("w", "a,$eq,$in", 2, 2)}}
	_, err2 := Extract(&q)
	vf.ObserveBool("err2", err2 != nil)
	vf.Assert(true, "no panic")
}

// collection-level calls with arbitrary (document-, array-, binary-valued) _id
func c20IDDoc(id string) bson.D {
	// {_id?: any id-like value (scalar, binary, document, array), a?: small value}
	idTags := uint32(vf.Param("idtags", vf.TNull|vf.TInt32|vf.TString|vf.TBinary|vf.TObjectID|vf.TDoc|vf.TArray)) | vf.Child(vf.TInt32|vf.TString)
	d := bson.D{}
	if vf.Bool(id + ".hasID") {
		d = append(d, bson.E{Key: "_id", Value: vf.Value(id+"._id", "a", 1, idTags, 1)})
	}
	if vf.Bool(id + ".hasA") {
		d = append(d, bson.E{Key: "a", Value: vf.Value(id+".a", "a", 1, vf.TInt32|vf.TString|vf.TArray|vf.Child(vf.TInt32), 1)})
	}
	return d
}

func H_C20_coll() {
	c := NewCollection(true)
	d1 := c20IDDoc("d")
	_, err := c.Insert(&d1)
	vf.ObserveBool("err", err != nil)
	if err != nil {
		return
	}
	q := bson.D{}
	switch vf.Choice("call", 3) {
	case 0:
		repl := c20IDDoc("r")
		_, err = c.Replace(&q, &repl, nil)
	case 1:
		p := pick("path", "a,_id,_id.a")
		op := pick("op", "$set,$unset,$inc,$rename")
		upd := bson.D{{Key: op, Value: bson.D{{Key: p, Value: vf.Value("v", "a", 1, vf.TInt32|vf.TString|vf.TBinary|vf.TDoc|vf.Child(vf.TInt32), 1)}}}}
		_, err = c.Update(&q, &upd, nil, 0, 0, nil)
	case 2:
		q2 := c20IDDoc("q")
		repl := c20IDDoc("r")
		_, err = c.Upsert(&q2, &repl, nil, nil)
	}
	vf.ObserveBool("err2", err != nil)
	vf.Assert(true, "no panic")
}

// skip / limit window arithmetic of Find, Update and Delete with arbitrary non-negative integers
func H_C20_window() {
	c := NewCollection(true)
	n := vf.Choice("n", 3)
	for i := 0; i < n; i++ {
		d := bson.D{{Key: "_id", Value: int32(i)}, {Key: "a", Value: vf.Value("a"+string(rune('0'+i)), "", 0, vf.TInt32|vf.TNull, 0)}}
		if _, err := c.Insert(&d); err != nil {
			return
		}
	}
	q := bson.D{}
	skip := vf.Int("skip")
	limit := vf.Int("limit")
	var srt *bson.D
	if vf.Bool("sorted") {
		srt = &bson.D{{Key: "a", Value: int32(1)}}
	}
	var err error
	switch vf.Choice("call", 3) {
	case 0:
		_, err = c.Find(&q, srt, skip, limit)
	case 1:
		upd := bson.D{{Key: "$set", Value: bson.D{{Key: "b", Value: int32(1)}}}}
		_, err = c.Update(&q, &upd, srt, skip, limit, nil)
	case 2:
		_, err = c.Delete(&q, srt, skip, limit)
	}
	vf.ObserveBool("err", err != nil)
	vf.Assert(true, "no panic")
}
