package mongokit

import (
	"go.mongodb.org/mongo-driver/bson"

	"github.com/256dpi/lungo/internal/vf"
)

// C10 law: $not over an expression with several operators negates their conjunction.
func H_C10_not2() {
	doc := c10Doc(false)
	p := vf.String("path", c10Paths)
	v1 := c10Operand("v", false)
	v2 := c10Operand("w", false)
	op1 := vf.String("op", "$gt,$gte,$eq,$ne")
	op2 := vf.String("op2", "$lt,$lte,$ne")
	expr := bson.D{{Key: op1, Value: v1}, {Key: op2, Value: v2}}
	pos, epos := match2(doc, bson.D{{Key: p, Value: expr}})
	neg, eneg := match2(doc, bson.D{{Key: p, Value: bson.D{{Key: "$not", Value: expr}}}})
	// the same conjunction spelled with $and
	and, eand := match2(doc, bson.D{{Key: "$and", Value: bson.A{
		bson.D{{Key: p, Value: bson.D{{Key: op1, Value: v1}}}},
		bson.D{{Key: p, Value: bson.D{{Key: op2, Value: v2}}}},
	}}})
	vf.ObserveBool("pos", pos)
	vf.Assert(!epos && !eneg && !eand, "unexpected error")
	vf.Assert(pos == and, "an expression with two operators is not their conjunction")
	vf.Assert(neg == !pos, "$not of an expression with two operators is not the negation of their conjunction")
}

func refTypeName(v interface{}) string {
	switch v.(type) {
	case nil:
		return "null"
	case int32:
		return "int"
	case int64:
		return "long"
	case float64:
		return "double"
	case string:
		return "string"
	case bool:
		return "bool"
	case bson.A:
		return "array"
	case bson.D:
		return "object"
	}
	return "?"
}

var refTypeCodes = map[string]int32{"double": 1, "string": 2, "object": 3, "array": 4, "bool": 8, "null": 10, "int": 16, "long": 18}

// C10 oracle: $type (aliases, numeric codes, "number", lists of types) on the core domain. A field
// matches if the value at the path, or - for an array - one of its elements, has one of the types; a
// path that fans out over sub-documents tests the values found in them (and their elements).
func H_C10_reftype() {
	doc := c10Doc(true)
	p := vf.String("path", c10Paths)
	cands, _, missing := refCandidates(doc, p)
	t1 := vf.String("t1", "double,string,object,array,bool,null,int,long,number")
	var operand interface{} = t1
	types := []string{t1}
	switch vf.Choice("form", 3) {
	case 1:
		// numeric code
		vf.Assume(t1 != "number")
		operand = refTypeCodes[t1]
	case 2:
		t2 := vf.String("t2", "string,array,int")
		operand = bson.A{t1, t2}
		types = append(types, t2)
	}
	want := false
	if !missing {
		for _, c := range cands {
			n := refTypeName(c)
			for _, t := range types {
				if n == t || t == "number" && (n == "int" || n == "long" || n == "double") {
					want = true
				}
			}
		}
	}
	got, err := match2(doc, bson.D{{Key: p, Value: bson.D{{Key: "$type", Value: operand}}}})
	vf.ObserveBool("got", got)
	vf.Assert(!err, "$type returned an error")
	vf.Assert(got == want, "$type differs from the reference semantics")
}
