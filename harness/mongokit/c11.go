package mongokit

import (
	"go.mongodb.org/mongo-driver/bson"

	"github.com/256dpi/lungo/bsonkit"
	"github.com/256dpi/lungo/internal/vf"
)

// C11: update operators.

func c11Tags() uint32 {
	return uint32(vf.Param("tags", vf.TNull|vf.TInt32|vf.TDouble|vf.TString|vf.TArray|vf.TDoc)) | vf.Child(uint32(vf.Param("ctags", vf.TInt32|vf.TString)))
}

// document {a?: X, b?: Y} in either order
func c11Doc(id string) bson.D {
	return vf.Doc(id, "a,b", 2, c11Tags(), vf.Param("ddepth", 1))
}

func apply1(doc bson.D, op, path string, v interface{}) (bson.D, error) {
	d := *bsonkit.Clone(&doc)
	upd := bson.D{{Key: op, Value: bson.D{{Key: path, Value: v}}}}
	q := bson.D{}
	_, err := Apply(&d, &q, &upd, false, nil)
	return d, err
}

// ---- numeric promotion of $inc / $mul (MongoDB: int32 op int32 stays int32 unless the result
// overflows, then int64; anything with int64 is int64 and overflow is an error; anything with a double
// is a double; a missing field counts as int32 0 for $inc and yields 0 of the operand's type for $mul)

func addOverflows64(a, b int64) bool {
	s := a + b
	return (a >= 0 && b >= 0 && s < 0) || (a < 0 && b < 0 && s >= 0)
}

func H_C11_inc() {
	doc := bson.D{}
	var cur interface{} = int32(0)
	if vf.Bool("present") {
		cur = vf.Value("cur", "", 0, vf.TNumbers, 0)
		doc = bson.D{{Key: "a", Value: cur}}
	}
	v := vf.Value("v", "", 0, vf.TNumbers, 0)
	res, err := apply1(doc, "$inc", "a", v)
	var want interface{}
	wantErr := false
	switch x := cur.(type) {
	case int32:
		switch y := v.(type) {
		case int32:
			s := int64(x) + int64(y)
			if s >= -2147483648 && s <= 2147483647 {
				want = int32(s)
			} else {
				want = s
			}
		case int64:
			wantErr = addOverflows64(int64(x), y)
			want = int64(x) + y
		case float64:
			want = float64(x) + y
		}
	case int64:
		switch y := v.(type) {
		case int32:
			wantErr = addOverflows64(x, int64(y))
			want = x + int64(y)
		case int64:
			wantErr = addOverflows64(x, y)
			want = x + y
		case float64:
			want = float64(x) + y
		}
	case float64:
		switch y := v.(type) {
		case int32:
			want = x + float64(y)
		case int64:
			want = x + float64(y)
		case float64:
			want = x + y
		}
	}
	vf.ObserveBool("err", err != nil)
	if wantErr {
		vf.Assert(err != nil, "$inc: int64 overflow was not rejected")
		return
	}
	vf.Assert(err == nil, "$inc failed on numbers")
	got := bsonkit.Get(&res, "a")
	vf.Assert(vf.EqualValues(got, want), "$inc: result differs from MongoDB's numeric promotion rule")
}

func H_C11_mul() {
	doc := bson.D{}
	var cur interface{}
	present := vf.Bool("present")
	if present {
		cur = vf.Value("cur", "", 0, vf.TNumbers, 0)
		doc = bson.D{{Key: "a", Value: cur}}
	}
	v := vf.Value("v", "", 0, vf.TNumbers, 0)
	// bound, stated before the code it constrains: 64-bit operands of an integer product stay below
	// 2^31 in magnitude (64x64-bit symbolic products and the division in the overflow test are out
	// of reach of the solver); int32 x int32 is covered in full
	_, curF := cur.(float64)
	_, vF := v.(float64)
	_, cur64 := cur.(int64)
	_, v64 := v.(int64)
	if present && (cur64 || v64) && !curF && !vF {
		switch x := cur.(type) {
		case int32:
			vf.Assume(x > -16 && x < 16)
		case int64:
			vf.Assume(x > -16 && x < 16)
		}
		switch y := v.(type) {
		case int32:
			vf.Assume(y > -16 && y < 16)
		case int64:
			vf.Assume(y > -16 && y < 16)
		}
	}
	res, err := apply1(doc, "$mul", "a", v)
	vf.ObserveBool("err", err != nil)
	got := bsonkit.Get(&res, "a")
	if !present {
		// MongoDB: the field is created as zero of the multiplier's type
		vf.Assert(err == nil, "$mul on a missing field failed")
		switch v.(type) {
		case int32:
			vf.Assert(vf.EqualValues(got, int32(0)), "$mul on a missing field: expected int32 0")
		case int64:
			vf.Assert(vf.EqualValues(got, int64(0)), "$mul on a missing field: expected int64 0")
		case float64:
			// zero of either sign for a finite multiplier (non-finite multipliers: outside the bound)
			y := v.(float64)
			if y == y && y-y == 0 {
				g, ok := got.(float64)
				vf.Assert(ok && g == 0, "$mul on a missing field: expected double 0")
			}
		}
		return
	}
	var want interface{}
	switch x := cur.(type) {
	case int32:
		switch y := v.(type) {
		case int32:
			p := int64(x) * int64(y)
			if p >= -2147483648 && p <= 2147483647 {
				want = int32(p)
			} else {
				want = p
			}
		case int64:
			// bound: |y| < 2^31 so that the product cannot overflow (64x64 symbolic products are out of reach)
			vf.Assume(y > -2147483648 && y < 2147483648)
			want = int64(x) * y
		case float64:
			want = float64(x) * y
		}
	case int64:
		switch y := v.(type) {
		case int32:
			vf.Assume(x > -2147483648 && x < 2147483648)
			want = x * int64(y)
		case int64:
			vf.Assume(x > -2147483648 && x < 2147483648 && y > -2147483648 && y < 2147483648)
			want = x * y
		case float64:
			want = float64(x) * y
		}
	case float64:
		switch y := v.(type) {
		case int32:
			want = x * float64(y)
		case int64:
			want = x * float64(y)
		case float64:
			want = x * y
		}
	}
	vf.Assert(err == nil, "$mul failed on numbers")
	vf.Assert(vf.EqualValues(got, want), "$mul: result differs from MongoDB's numeric promotion rule")
}

// ---- reference semantics for operators on a top-level field

func refTop(doc bson.D, key string) (int, interface{}) {
	for i, e := range doc {
		if e.Key == key {
			return i, e.Value
		}
	}
	return -1, bsonkit.Missing
}

func refSetTop(doc bson.D, key string, v interface{}) bson.D {
	out := make(bson.D, 0, len(doc)+1)
	found := false
	for _, e := range doc {
		if e.Key == key {
			out = append(out, bson.E{Key: key, Value: v})
			found = true
		} else {
			out = append(out, e)
		}
	}
	if !found {
		out = append(out, bson.E{Key: key, Value: v})
	}
	return out
}

func refUnsetTop(doc bson.D, key string) bson.D {
	out := make(bson.D, 0, len(doc))
	for _, e := range doc {
		if e.Key != key {
			out = append(out, e)
		}
	}
	return out
}

func contains(arr bson.A, v interface{}) bool {
	for _, e := range arr {
		if bsonkit.Compare(e, v) == 0 {
			return true
		}
	}
	return false
}

// differential check of the field operators on top-level paths a, b, c
func H_C11_ref() {
	doc := c11Doc("d")
	key := vf.String("key", "a,b,c")
	op := pick("op", "$set,$unset,$min,$max,$push,$pop,$addToSet,$pull,$pullAll,$rename")
	v := vf.Value("v", "a", 2, c11Tags(), 1)
	_, cur := refTop(doc, key)
	var want bson.D
	wantErr := false
	switch op {
	case "$set":
		want = refSetTop(doc, key, v)
	case "$unset":
		want = refUnsetTop(doc, key)
	case "$min", "$max":
		want = doc
		if cur == bsonkit.Missing {
			want = refSetTop(doc, key, v)
		} else {
			c := bsonkit.Compare(cur, v)
			if op == "$min" && c > 0 || op == "$max" && c < 0 {
				want = refSetTop(doc, key, v)
			}
		}
	case "$push":
		if cur == bsonkit.Missing {
			want = refSetTop(doc, key, bson.A{v})
		} else if arr, ok := cur.(bson.A); ok {
			want = refSetTop(doc, key, append(append(bson.A{}, arr...), v))
		} else {
			wantErr = true
		}
	case "$pop":
		var dir interface{} = int32(1)
		last := vf.Bool("last")
		if !last {
			dir = int32(-1)
		}
		v = dir
		want = doc
		if cur != bsonkit.Missing {
			arr, ok := cur.(bson.A)
			if !ok {
				wantErr = true
			} else if len(arr) > 0 {
				if last {
					want = refSetTop(doc, key, append(bson.A{}, arr[:len(arr)-1]...))
				} else {
					want = refSetTop(doc, key, append(bson.A{}, arr[1:]...))
				}
			}
		}
	case "$addToSet":
		if cur == bsonkit.Missing {
			want = refSetTop(doc, key, bson.A{v})
		} else if arr, ok := cur.(bson.A); ok {
			want = doc
			if !contains(arr, v) {
				want = refSetTop(doc, key, append(append(bson.A{}, arr...), v))
			}
		} else {
			wantErr = true
		}
	case "$pull", "$pullAll":
		// scalar / array operands only ($pull with a document operand is a query: see C10)
		var targets bson.A
		if op == "$pull" {
			_, isDoc := v.(bson.D)
			vf.Assume(!isDoc)
			targets = bson.A{v}
		} else {
			arr, ok := v.(bson.A)
			vf.Assume(ok)
			targets = arr
		}
		want = doc
		if cur != bsonkit.Missing {
			arr, ok := cur.(bson.A)
			if !ok {
				wantErr = true
			} else {
				kept := bson.A{}
				for _, e := range arr {
					if !contains(targets, e) {
						kept = append(kept, e)
					}
				}
				if len(kept) != len(arr) {
					want = refSetTop(doc, key, kept)
				}
			}
		}
	case "$rename":
		to := vf.String("to", "a,b,c,z")
		v = to
		if to == key {
			wantErr = true
		} else {
			want = doc
			if cur != bsonkit.Missing {
				want = refSetTop(refUnsetTop(doc, key), to, cur)
				// renaming onto an existing field keeps that field's position
				if i, _ := refTop(doc, to); i >= 0 {
					want = refUnsetTop(refSetTop(doc, to, cur), key)
				}
			}
		}
	}
	got, err := apply1(doc, op, key, v)
	vf.ObserveBool("err", err != nil)
	if wantErr {
		vf.Assert(err != nil, "operator accepted a target of the wrong type")
		return
	}
	vf.Assert(err == nil, "operator failed on a well-formed update")
	vf.Assert(vf.EqualValues(got, want), "updated document differs from the reference semantics")
}

// $push / $addToSet with $each: elements are appended in order; $addToSet skips every value that is
// already in the array or was added before it by the same update
func H_C11_each() {
	n := vf.Choice("n", 3)
	arr := make(bson.A, n)
	for i := range arr {
		arr[i] = vf.Value("e"+string(rune('0'+i)), "", 0, vf.TInt32|vf.TString, 0)
	}
	doc := bson.D{{Key: "a", Value: arr}}
	m := vf.Choice("m", 4)
	each := make(bson.A, m)
	for i := range each {
		each[i] = vf.Value("x"+string(rune('0'+i)), "", 0, vf.TInt32|vf.TInt64|vf.TString, 0)
	}
	set := vf.Bool("addToSet")
	op := "$push"
	if set {
		op = "$addToSet"
	}
	want := append(bson.A{}, arr...)
	for _, x := range each {
		if set && contains(want, x) {
			continue
		}
		want = append(want, x)
	}
	got, err := apply1(doc, op, "a", bson.D{{Key: "$each", Value: each}})
	vf.Assert(err == nil, "$each update failed")
	vf.Observe("len", int64(len(want)))
	vf.Assert(vf.EqualValues(bsonkit.Get(&got, "a"), want), "$each result differs from the reference semantics")
}

// idempotence: applying $set, $unset, $min, $max, $addToSet, $pull, $pullAll twice changes nothing more;
// fields that the path does not address keep value and relative order
func H_C11_idem() {
	doc := c11Doc("d")
	path := vf.String("path", "a,b,c,a.a,a.0,a.1,b.a")
	op := pick("op", "$set,$unset,$min,$max,$addToSet,$pull,$pullAll")
	v := vf.Value("v", "a", 2, c11Tags(), 1)
	once, err := apply1(doc, op, path, v)
	vf.ObserveBool("err", err != nil)
	if err != nil {
		return
	}
	twice, err2 := apply1(once, op, path, v)
	vf.Assert(err2 == nil, "second application failed")
	vf.Assert(vf.EqualValues(once, twice), "second application changed the document")
	// untouched fields
	first := path
	for i := 0; i < len(path); i++ {
		if path[i] == '.' {
			first = path[:i]
			break
		}
	}
	var before, after []string
	for _, e := range doc {
		if e.Key != first {
			before = append(before, e.Key)
			vf.Assert(vf.EqualValues(bsonkit.Get(&once, e.Key), e.Value), "an untouched field changed its value")
		}
	}
	for _, e := range once {
		if e.Key != first {
			after = append(after, e.Key)
		}
	}
	vf.Assert(len(before) == len(after), "an untouched field appeared or disappeared")
	for i := range before {
		vf.Assert(before[i] == after[i], "untouched fields changed their order")
	}
}

// an update whose result is identical reports zero modified, otherwise one; conflicting paths reject
// the whole update and leave the collection unchanged
func H_C11_modified() {
	c := NewCollection(true)
	doc := bson.D{{Key: "_id", Value: int32(1)}}
	doc = append(doc, c11Doc("d")...)
	_, err := c.Insert(&doc)
	vf.Assume(err == nil)
	stored := c.Documents.List[0]
	before := *bsonkit.Clone(stored)
	path := vf.String("path", "a,b,c,a.a")
	op := pick("op", "$set,$unset,$min,$max,$inc,$push,$addToSet,$pull")
	v := vf.Value("v", "a", 2, c11Tags(), 1)
	upd := bson.D{{Key: op, Value: bson.D{{Key: path, Value: v}}}}
	conflict := vf.Bool("conflict")
	if conflict {
		// second operator on a path that overlaps the first
		p2 := path + ".x"
		if vf.Bool("same") {
			p2 = path
		}
		upd = append(upd, bson.E{Key: "$setOnInsert", Value: bson.D{{Key: "q", Value: int32(1)}}}, bson.E{Key: "$currentDate", Value: bson.D{{Key: p2, Value: true}}})
	}
	q := bson.D{}
	res, err := c.Update(&q, &upd, nil, 0, 0, nil)
	vf.ObserveBool("err", err != nil)
	now := c.Documents.List[0]
	if err != nil {
		vf.Assert(vf.EqualValues(*now, before), "a rejected update changed the stored document")
		return
	}
	changed := !vf.EqualValues(*now, before)
	vf.Assert(len(res.Matched) == 1, "update did not match the document")
	if changed {
		vf.Assert(len(res.Modified) == 1 && len(res.Changes) == 1, "a changed document was not reported as modified")
	} else {
		vf.Assert(len(res.Modified) == 0 && len(res.Changes) == 0, "an identical result was reported as modified")
	}
}
