package mongokit

import (
	"go.mongodb.org/mongo-driver/bson"

	"github.com/256dpi/lungo/bsonkit"
	"github.com/256dpi/lungo/internal/vf"
)

// $push with the modifiers $each / $position / $sort / $slice against a reference written from the
// MongoDB manual, with full-range 64-bit modifier arguments (windows computed without overflow).
func H_C11_pushmod() {
	n := vf.Choice("n", vf.Param("maxarr", 3)+1)
	arr := make(bson.A, n)
	for i := range arr {
		arr[i] = vf.Int32("e" + string(rune('0'+i)))
	}
	m := vf.Choice("m", vf.Param("maxeach", 2)+1)
	each := make(bson.A, m)
	for i := range each {
		each[i] = vf.Int32("x" + string(rune('0'+i)))
	}
	doc := bson.D{{Key: "a", Value: arr}}
	if vf.Bool("missing") {
		doc = bson.D{}
		arr = bson.A{}
		n = 0
	}
	spec := bson.D{{Key: "$each", Value: each}}
	insertAt := n
	if vf.Bool("hasPos") {
		p := vf.Int64("pos")
		spec = append(spec, bson.E{Key: "$position", Value: p})
		if p < 0 {
			if p < -int64(n) {
				insertAt = 0
			} else {
				insertAt = n + int(p)
			}
		} else if p > int64(n) {
			insertAt = n
		} else {
			insertAt = int(p)
		}
	}
	want := append(bson.A{}, arr[:insertAt]...)
	want = append(want, each...)
	want = append(want, arr[insertAt:]...)
	if vf.Bool("hasSort") {
		desc := vf.Bool("desc")
		dir := int32(1)
		if desc {
			dir = -1
		}
		spec = append(spec, bson.E{Key: "$sort", Value: dir})
		// stable insertion sort
		for i := 1; i < len(want); i++ {
			for j := i; j > 0; j-- {
				c := bsonkit.Compare(want[j], want[j-1])
				if desc && c > 0 || !desc && c < 0 {
					want[j], want[j-1] = want[j-1], want[j]
				} else {
					break
				}
			}
		}
	}
	if vf.Bool("hasSlice") {
		s := vf.Int64("slice")
		spec = append(spec, bson.E{Key: "$slice", Value: s})
		l := int64(len(want))
		switch {
		case s == 0:
			want = bson.A{}
		case s > 0:
			if s < l {
				want = want[:s]
			}
		default:
			if s > -l {
				want = want[l+s:]
			}
		}
	}
	got, err := apply1(doc, "$push", "a", spec)
	vf.Assert(err == nil, "$push with modifiers failed")
	vf.Observe("len", int64(len(want)))
	res, ok := bsonkit.Get(&got, "a").(bson.A)
	vf.Assert(ok, "$push did not produce an array")
	vf.Assert(vf.EqualValues(res, want), "$push with modifiers differs from the reference semantics")
}

// positional operators: $[] addresses every element, $[id] the elements matching the array filter
func H_C11_positional() {
	n := vf.Choice("n", vf.Param("maxarr", 3)+1)
	arr := make(bson.A, n)
	docs := vf.Bool("docs")
	for i := range arr {
		x := vf.Int32("e" + string(rune('0'+i)))
		if docs {
			arr[i] = bson.D{{Key: "x", Value: x}, {Key: "y", Value: "k"}}
		} else {
			arr[i] = x
		}
	}
	doc := bson.D{{Key: "a", Value: arr}, {Key: "b", Value: int32(7)}}
	v := vf.Int32("v")
	all := vf.Bool("all")
	c := vf.Int32("c")
	op := vf.String("op", "$set,$inc")
	path := "a.$[]"
	var filters bsonkit.List
	if !all {
		path = "a.$[i]"
		f := bson.D{{Key: "i", Value: bson.D{{Key: "$gte", Value: c}}}}
		if docs {
			f = bson.D{{Key: "i.x", Value: bson.D{{Key: "$gte", Value: c}}}}
		}
		filters = bsonkit.List{&f}
	}
	if docs {
		path += ".x"
	}
	want := make(bson.A, n)
	for i := range arr {
		var x int32
		if docs {
			x = arr[i].(bson.D)[0].Value.(int32)
		} else {
			x = arr[i].(int32)
		}
		nx := x
		if all || x >= c {
			if op == "$set" {
				nx = v
			} else {
				vf.Assume(int64(x)+int64(v) >= -2147483648 && int64(x)+int64(v) <= 2147483647)
				nx = x + v
			}
		}
		if docs {
			want[i] = bson.D{{Key: "x", Value: nx}, {Key: "y", Value: "k"}}
		} else {
			want[i] = nx
		}
	}
	d := *bsonkit.Clone(&doc)
	upd := bson.D{{Key: op, Value: bson.D{{Key: path, Value: v}}}}
	q := bson.D{}
	_, err := Apply(&d, &q, &upd, false, filters)
	vf.Assert(err == nil, "positional update failed")
	vf.Observe("n", int64(n))
	vf.Assert(vf.EqualValues(bsonkit.Get(&d, "a"), want), "positional update differs from the reference semantics")
	vf.Assert(vf.EqualValues(bsonkit.Get(&d, "b"), int32(7)), "positional update touched another field")
}
