package mongokit

import (
	"go.mongodb.org/mongo-driver/bson"

	"github.com/256dpi/lungo/bsonkit"
	"github.com/256dpi/lungo/internal/vf"
)

// C13: sort / skip / limit / distinct. A collection of n <= 3 documents {_id: i, a?: X, b?: Y} is
// built through the real Insert; X, Y are scalars or arrays of scalars.

func c13Tags() uint32 {
	return uint32(vf.Param("tags", vf.TNull|vf.TInt32|vf.TDouble|vf.TString|vf.TArray)) | vf.Child(uint32(vf.Param("ctags", vf.TNull|vf.TInt32|vf.TString)))
}

func c13Coll() (*Collection, bsonkit.List) {
	c := NewCollection(true)
	n := vf.Choice("n", vf.Param("maxdocs", 3)+1)
	var docs bsonkit.List
	for i := 0; i < n; i++ {
		id := "d" + string(rune('0'+i))
		d := bson.D{{Key: "_id", Value: int32(i)}}
		if vf.Param("symid", 0) == 1 {
			// user-supplied ids in arbitrary insertion order
			d[0].Value = vf.Int32(id + ".id")
		}
		if vf.Bool(id + ".hasA") {
			d = append(d, bson.E{Key: "a", Value: vf.Value(id+".a", "", 2, c13Tags(), 1)})
		}
		if vf.Param("useb", 1) == 1 && vf.Bool(id+".hasB") {
			d = append(d, bson.E{Key: "b", Value: vf.Value(id+".b", "", 0, vf.TInt32|vf.TString, 0)})
		}
		_, err := c.Insert(&d)
		vf.Assume(err == nil)
		docs = append(docs, c.Documents.List[i])
	}
	return c, docs
}

// refSortKey: arrays rank by their smallest element ascending and largest descending; an empty
// array and a missing field are compared as they are (missing orders like null).
func refSortKey(d bsonkit.Doc, path string, desc bool) interface{} {
	v := bsonkit.Get(d, path)
	arr, ok := v.(bson.A)
	if !ok || len(arr) == 0 {
		return v
	}
	best := arr[0]
	for _, e := range arr[1:] {
		c := bsonkit.Compare(e, best)
		if desc && c > 0 || !desc && c < 0 {
			best = e
		}
	}
	return best
}

type refColumn struct {
	path string
	desc bool
}

func refLess(l, r bsonkit.Doc, cols []refColumn) bool {
	for _, col := range cols {
		c := bsonkit.Compare(refSortKey(l, col.path, col.desc), refSortKey(r, col.path, col.desc))
		if c == 0 {
			continue
		}
		if col.desc {
			return c > 0
		}
		return c < 0
	}
	return false
}

// refSorted: stable insertion sort
func refSorted(list bsonkit.List, cols []refColumn) bsonkit.List {
	out := make(bsonkit.List, len(list))
	copy(out, list)
	for i := 1; i < len(out); i++ {
		for j := i; j > 0 && refLess(out[j], out[j-1], cols); j-- {
			out[j], out[j-1] = out[j-1], out[j]
		}
	}
	return out
}

func c13Sort() (*bson.D, []refColumn) {
	k := vf.Choice("sortkeys", 3)
	if k == 0 {
		return nil, nil
	}
	spec := bson.D{}
	var cols []refColumn
	first := "a"
	if vf.Bool("bfirst") {
		first = "b"
	}
	names := []string{first}
	if k == 2 {
		if first == "a" {
			names = append(names, "b")
		} else {
			names = append(names, "a")
		}
	}
	for i, nme := range names {
		desc := vf.Bool("desc" + string(rune('0'+i)))
		dir := int32(1)
		if desc {
			dir = -1
		}
		spec = append(spec, bson.E{Key: nme, Value: dir})
		cols = append(cols, refColumn{nme, desc})
	}
	return &spec, cols
}

func c13Filter() bson.D {
	if vf.Bool("filtered") {
		return bson.D{{Key: "b", Value: bson.D{{Key: "$gte", Value: vf.Int32("c")}}}}
	}
	return bson.D{}
}

func refWindow(docs bsonkit.List, q bson.D, cols []refColumn, skip, limit int) bsonkit.List {
	var matching bsonkit.List
	for _, d := range docs {
		ok, err := Match(d, &q)
		vf.Assume(err == nil)
		if ok {
			matching = append(matching, d)
		}
	}
	sorted := refSorted(matching, cols)
	if skip >= len(sorted) {
		return nil
	}
	sorted = sorted[skip:]
	if limit > 0 && limit < len(sorted) {
		sorted = sorted[:limit]
	}
	return sorted
}

func sameDocs(got, want bsonkit.List) bool {
	if len(got) != len(want) {
		return false
	}
	for i := range got {
		if got[i] != want[i] {
			return false
		}
	}
	return true
}

// Find returns exactly the window [skip, skip+limit) of the stably sorted matching documents
func H_C13_find() {
	c, docs := c13Coll()
	q := c13Filter()
	spec, cols := c13Sort()
	skip, limit := vf.Int("skip"), vf.Int("limit")
	vf.Assume(skip >= 0 && limit >= 0)
	want := refWindow(docs, q, cols, skip, limit)
	res, err := c.Find(&q, spec, skip, limit)
	vf.Assert(err == nil, "Find failed")
	vf.Observe("n", int64(len(res.Matched)))
	vf.Assert(sameDocs(res.Matched, want), "Find did not return the window of the stable sort of the matching documents")
}

// sorted single-document writes act on the first element of the ordering; Delete/Update windows
func H_C13_write() {
	c, docs := c13Coll()
	q := c13Filter()
	spec, cols := c13Sort()
	skip, limit := vf.Int("skip"), vf.Int("limit")
	vf.Assume(skip >= 0 && limit >= 0)
	want := refWindow(docs, q, cols, skip, limit)
	switch vf.Choice("call", 3) {
	case 0:
		res, err := c.Delete(&q, spec, skip, limit)
		vf.Assert(err == nil, "Delete failed")
		vf.Observe("n", int64(len(res.Matched)))
		vf.Assert(sameDocs(res.Matched, want), "Delete did not act on the window of the ordering")
		vf.Assert(len(c.Documents.List) == len(docs)-len(want), "Delete removed a different number of documents")
	case 1:
		upd := bson.D{{Key: "$set", Value: bson.D{{Key: "z", Value: int32(1)}}}}
		res, err := c.Update(&q, &upd, spec, skip, limit, nil)
		vf.Assert(err == nil, "Update failed")
		vf.Observe("n", int64(len(res.Matched)))
		vf.Assert(sameDocs(res.Matched, want), "Update did not act on the window of the ordering")
	case 2:
		repl := bson.D{{Key: "z", Value: int32(1)}}
		first := refWindow(docs, q, cols, 0, 1)
		res, err := c.Replace(&q, &repl, spec)
		vf.Assert(err == nil, "Replace failed")
		vf.Observe("n", int64(len(res.Matched)))
		vf.Assert(sameDocs(res.Matched, first), "Replace did not act on the first document of the ordering")
	}
}

// Distinct returns each value occurring at the path (array elements individually) once, ascending
func H_C13_distinct() {
	_, docs := c13Coll()
	dpath := vf.String("dpath", "a,_id")
	res := Distinct(docs, dpath)
	vf.Observe("n", int64(len(res)))
	// collect the occurring values
	var occ bson.A
	for _, d := range docs {
		v := bsonkit.Get(d, dpath)
		if v == bsonkit.Missing {
			continue
		}
		if arr, ok := v.(bson.A); ok {
			occ = append(occ, arr...)
		} else {
			occ = append(occ, v)
		}
	}
	for i := range res {
		if i > 0 {
			vf.Assert(bsonkit.Compare(res[i-1], res[i]) < 0, "Distinct result is not strictly ascending")
		}
		found := false
		for _, o := range occ {
			if bsonkit.Compare(o, res[i]) == 0 {
				found = true
			}
		}
		vf.Assert(found, "Distinct returned a value that does not occur")
	}
	for _, o := range occ {
		found := false
		for _, r := range res {
			if bsonkit.Compare(o, r) == 0 {
				found = true
			}
		}
		vf.Assert(found, "Distinct lost an occurring value")
	}
}
