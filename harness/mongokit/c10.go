package mongokit

import (
	"strconv"
	"strings"

	"go.mongodb.org/mongo-driver/bson"
	"go.mongodb.org/mongo-driver/bson/primitive"

	"github.com/256dpi/lungo/bsonkit"
	"github.com/256dpi/lungo/internal/vf"
)

const c10Paths = "a,b,a.a,a.0,a.0.a,c"

func c10Doc(flat bool) bson.D {
	tags := uint32(vf.Param("dtags", vf.TNull|vf.TInt32|vf.TInt64|vf.TDouble|vf.TString|vf.TBool|vf.TArray|vf.TDoc))
	if flat {
		tags |= vf.TFlatArr
	}
	return vf.Doc("d", "a,b", vf.Param("dlen", 2), tags, vf.Param("ddepth", 1))
}

func c10Operand(id string, flat bool) interface{} {
	tags := uint32(vf.Param("vtags", vf.TNull|vf.TInt32|vf.TInt64|vf.TDouble|vf.TString|vf.TBool|vf.TArray|vf.TDoc))
	if flat {
		tags |= vf.TFlatArr
	}
	return vf.Value(id, "a,b", 2, tags, vf.Param("vdepth", 1))
}

func match2(doc bson.D, q bson.D) (bool, bool) {
	m, err := Match(&doc, &q)
	return m, err != nil
}

// C10 law: $gte == $gt or $eq, $lte == $lt or $eq (errors must agree as well).
func H_C10_gte() {
	doc := c10Doc(false)
	p := vf.String("path", c10Paths)
	v := c10Operand("v", false)
	lt := vf.Bool("lt")
	strict, loose := "$gt", "$gte"
	if lt {
		strict, loose = "$lt", "$lte"
	}
	m1, e1 := match2(doc, bson.D{{Key: p, Value: bson.D{{Key: loose, Value: v}}}})
	m2, e2 := match2(doc, bson.D{{Key: "$or", Value: bson.A{
		bson.D{{Key: p, Value: bson.D{{Key: strict, Value: v}}}},
		bson.D{{Key: p, Value: bson.D{{Key: "$eq", Value: v}}}},
	}}})
	vf.ObserveBool("m1", m1)
	vf.Assert(e1 == e2, "$gte/$lte: error on one side only")
	vf.Assert(m1 == m2, "$gte/$lte is not $gt/$lt or $eq")
}

// C10 law: $ne, $nin, $not, $nor are exact negations; implicit equality is $eq.
func H_C10_neg() {
	doc := c10Doc(false)
	p := vf.String("path", c10Paths)
	v := c10Operand("v", false)
	op := vf.String("op", "$eq,$gt,$gte,$lt,$lte")
	pos, epos := match2(doc, bson.D{{Key: p, Value: bson.D{{Key: op, Value: v}}}})
	vf.ObserveBool("pos", pos)
	// $not
	n1, e1 := match2(doc, bson.D{{Key: p, Value: bson.D{{Key: "$not", Value: bson.D{{Key: op, Value: v}}}}}})
	vf.Assert(e1 == epos, "$not: error on one side only")
	vf.Assert(epos || n1 == !pos, "$not is not the negation")
	// $nor
	n2, e2 := match2(doc, bson.D{{Key: "$nor", Value: bson.A{bson.D{{Key: p, Value: bson.D{{Key: op, Value: v}}}}}}})
	vf.Assert(e2 == epos, "$nor: error on one side only")
	vf.Assert(epos || n2 == !pos, "$nor is not the negation")
	if op == "$eq" {
		n3, e3 := match2(doc, bson.D{{Key: p, Value: bson.D{{Key: "$ne", Value: v}}}})
		vf.Assert(e3 == epos, "$ne: error on one side only")
		vf.Assert(epos || n3 == !pos, "$ne is not the negation of $eq")
		// implicit equality (operand documents with non-operator keys are literal values)
		n4, e4 := match2(doc, bson.D{{Key: p, Value: v}})
		vf.Assert(e4 == epos, "implicit $eq: error on one side only")
		vf.Assert(epos || n4 == pos, "{p: v} differs from {p: {$eq: v}}")
	}
}

// C10 law: $in is the disjunction of equalities, $nin its negation.
func H_C10_in() {
	doc := c10Doc(false)
	p := vf.String("path", c10Paths)
	v1 := c10Operand("v", false)
	v2 := c10Operand("w", false)
	in, ein := match2(doc, bson.D{{Key: p, Value: bson.D{{Key: "$in", Value: bson.A{v1, v2}}}}})
	m1, e1 := match2(doc, bson.D{{Key: p, Value: bson.D{{Key: "$eq", Value: v1}}}})
	m2, e2 := match2(doc, bson.D{{Key: p, Value: bson.D{{Key: "$eq", Value: v2}}}})
	nin, enin := match2(doc, bson.D{{Key: p, Value: bson.D{{Key: "$nin", Value: bson.A{v1, v2}}}}})
	vf.ObserveBool("in", in)
	vf.Assert(!ein && !e1 && !e2 && !enin, "unexpected error")
	vf.Assert(in == (m1 || m2), "$in is not the disjunction of $eq")
	vf.Assert(nin == !in, "$nin is not the negation of $in")
}

// C10 law: $and / $or / implicit and are conjunction / disjunction.
func H_C10_andor() {
	doc := c10Doc(false)
	p1 := vf.String("path", "a,a.a")
	p2 := vf.String("path2", "b,a")
	v1 := c10Operand("v", false)
	v2 := c10Operand("w", false)
	op1 := vf.String("op", "$eq,$gt,$ne")
	op2 := vf.String("op2", "$lt,$gte")
	q1 := bson.D{{Key: p1, Value: bson.D{{Key: op1, Value: v1}}}}
	q2 := bson.D{{Key: p2, Value: bson.D{{Key: op2, Value: v2}}}}
	m1, e1 := match2(doc, q1)
	m2, e2 := match2(doc, q2)
	and, ea := match2(doc, bson.D{{Key: "$and", Value: bson.A{q1, q2}}})
	or, eo := match2(doc, bson.D{{Key: "$or", Value: bson.A{q1, q2}}})
	imp, ei := match2(doc, bson.D{q1[0], q2[0]})
	vf.ObserveBool("and", and)
	vf.Assert(!e1 && !e2 && !ea && !eo && !ei, "unexpected error")
	vf.Assert(and == (m1 && m2), "$and is not the conjunction")
	vf.Assert(or == (m1 || m2), "$or is not the disjunction")
	vf.Assert(imp == (m1 && m2), "implicit and is not the conjunction")
}

// ---------- reference semantics (written from the MongoDB manual, independent of lungo's code paths) ----------

func isIndex(seg string) (int, bool) {
	if seg == "" || seg[0] < '0' || seg[0] > '9' {
		return 0, false
	}
	n, err := strconv.Atoi(seg)
	if err != nil {
		return 0, false
	}
	return n, true
}

// refLeaves resolves a dotted path. It returns the values found at the path (one per array fan-out
// branch), whether the path fanned out over an array of sub-documents, and whether a fan-out branch
// found nothing.
func refLeaves(v interface{}, segs []string) (leaves []interface{}, fanout bool) {
	if len(segs) == 0 {
		return []interface{}{v}, false
	}
	switch x := v.(type) {
	case bson.D:
		for _, e := range x {
			if e.Key == segs[0] {
				return refLeaves(e.Value, segs[1:])
			}
		}
		return nil, false
	case bson.A:
		if i, ok := isIndex(segs[0]); ok {
			if i < len(x) {
				return refLeaves(x[i], segs[1:])
			}
			// an index beyond the end: lungo falls back to fan-out; with keys a,b no document has a numeric key
		}
		var out []interface{}
		for _, el := range x {
			if d, ok := el.(bson.D); ok {
				l, _ := refLeaves(d, segs)
				out = append(out, l...)
			}
		}
		return out, true
	}
	return nil, false
}

// refCandidates are the values a condition on the path is tested against: every leaf, and for a leaf
// that is an array each of its elements as well.
func refCandidates(doc bson.D, path string) (cands []interface{}, fanout bool, missing bool) {
	leaves, fan := refLeaves(doc, strings.Split(path, "."))
	if len(leaves) == 0 && !fan {
		return nil, false, true
	}
	for _, l := range leaves {
		cands = append(cands, l)
		if a, ok := l.(bson.A); ok {
			for _, el := range a {
				cands = append(cands, el)
			}
		}
	}
	return cands, fan, false
}

func refClass(v interface{}) int {
	switch v.(type) {
	case nil:
		return 0
	case int32, int64, float64:
		return 1
	case string:
		return 2
	case bson.D:
		return 3
	case bson.A:
		return 4
	case primitive.Binary:
		return 5
	case primitive.ObjectID:
		return 6
	case bool:
		return 7
	case primitive.DateTime:
		return 8
	case primitive.Timestamp:
		return 9
	case primitive.Regex:
		return 10
	}
	return -1
}

func refCmpOp(op string, c, v interface{}) bool {
	if refClass(c) != refClass(v) {
		return false
	}
	r := bsonkit.Compare(c, v)
	switch op {
	case "$eq":
		return r == 0
	case "$gt":
		return r > 0
	case "$gte":
		return r >= 0
	case "$lt":
		return r < 0
	case "$lte":
		return r <= 0
	}
	return false
}

// hasNestedArray reports arrays directly inside arrays (outside the core domain).
func hasNestedArray(v interface{}, inArray bool) bool {
	switch x := v.(type) {
	case bson.A:
		if inArray {
			return true
		}
		for _, e := range x {
			if hasNestedArray(e, true) {
				return true
			}
		}
	case bson.D:
		for _, e := range x {
			if hasNestedArray(e.Value, false) {
				return true
			}
		}
	}
	return false
}

func isScalarNonNull(v interface{}) bool {
	switch v.(type) {
	case nil, bson.A, bson.D:
		return false
	}
	return true
}

// C10 oracle: comparison operators agree with the reference semantics on the core domain.
func H_C10_refcmp() {
	doc := c10Doc(true)
	p := vf.String("path", c10Paths)
	v := c10Operand("v", true)
	op := vf.String("op", "$eq,$gt,$gte,$lt,$lte")
	cands, fan, missing := refCandidates(doc, p)
	if fan {
		vf.Assume(isScalarNonNull(v))
	}
	want := false
	if missing {
		// a missing field behaves like null
		want = refCmpOp(op, nil, v)
	} else {
		for _, c := range cands {
			if refCmpOp(op, c, v) {
				want = true
			}
		}
	}
	got, err := match2(doc, bson.D{{Key: p, Value: bson.D{{Key: op, Value: v}}}})
	vf.ObserveBool("got", got)
	vf.Assert(!err, "comparison operator returned an error")
	vf.Assert(got == want, "comparison differs from the reference semantics")
}

// C10 oracle: $exists, $size, $in on the core domain.
func H_C10_refmisc() {
	doc := c10Doc(true)
	p := vf.String("path", c10Paths)
	cands, fan, missing := refCandidates(doc, p)
	leaves, _ := refLeaves(doc, strings.Split(p, "."))
	switch vf.Choice("which", 3) {
	case 0: // $exists
		flag := vf.Bool("flag")
		exists := !missing && (!fan || len(leaves) > 0)
		got, err := match2(doc, bson.D{{Key: p, Value: bson.D{{Key: "$exists", Value: flag}}}})
		vf.ObserveBool("got", got)
		vf.Assert(!err, "$exists returned an error")
		vf.Assert(got == (exists == flag), "$exists differs from the reference semantics")
	case 1: // $size
		n := vf.Int32("n")
		vf.Assume(n >= 0)
		want := false
		for _, l := range leaves {
			if a, ok := l.(bson.A); ok && int32(len(a)) == n {
				want = true
			}
		}
		got, err := match2(doc, bson.D{{Key: p, Value: bson.D{{Key: "$size", Value: n}}}})
		vf.ObserveBool("got", got)
		vf.Assert(!err, "$size returned an error")
		vf.Assert(got == want, "$size differs from the reference semantics")
	case 2: // $in with scalars
		v1 := vf.Value("v", "", 0, vf.TInt32|vf.TDouble|vf.TString|vf.TBool, 0)
		v2 := vf.Value("w", "", 0, vf.TNull|vf.TInt64|vf.TString, 0)
		if fan {
			vf.Assume(v2 != nil)
		}
		want := false
		if missing {
			want = v2 == nil
		}
		for _, c := range cands {
			if refCmpOp("$eq", c, v1) || refCmpOp("$eq", c, v2) {
				want = true
			}
		}
		got, err := match2(doc, bson.D{{Key: p, Value: bson.D{{Key: "$in", Value: bson.A{v1, v2}}}}})
		vf.ObserveBool("got", got)
		vf.Assert(!err, "$in returned an error")
		vf.Assert(got == want, "$in differs from the reference semantics")
	}
}
