package mongokit

import (
	"strings"

	"go.mongodb.org/mongo-driver/bson"

	"github.com/256dpi/lungo/bsonkit"
	"github.com/256dpi/lungo/internal/vf"
)

// C14: projections. The document has _id, a, b; a and b hold scalars, arrays of scalars or embedded
// documents (keys a,b) of scalars/arrays. Projection paths descend through embedded documents only
// (fan-out of plain paths over arrays of sub-documents is outside the property's domain).

const c14Tags = vf.TNull | vf.TInt32 | vf.TDouble | vf.TString | vf.TBool | vf.TArray | vf.TDoc | vf.TFlatArr
// field names a and ab share a prefix on purpose: path relations are about segments, not characters
const c14Probes = "_id,a,ab,a.a,a.ab,ab.a"

func c14Doc() bson.D {
	// stored documents always carry an _id
	d := bson.D{{Key: "_id", Value: vf.Value("d._id", "a", 1, vf.TInt32|vf.TString|vf.TDoc, 1)}}
	rest := vf.Doc("d", "a,ab", 2, uint32(vf.Param("tags", c14Tags)), vf.Param("ddepth", 2))
	return append(d, rest...)
}

func related(p, q string) bool {
	return p == q || strings.HasPrefix(q, p+".") || strings.HasPrefix(p, q+".")
}

func covers(p, q string) bool { return p == q || strings.HasPrefix(q, p+".") }

// noArrayOnPath: the path does not cross an array before its last segment
func noArrayOnPath(doc bson.D, path string) bool {
	segs := strings.Split(path, ".")
	var cur interface{} = doc
	for i := range segs {
		d, ok := cur.(bson.D)
		if !ok {
			_, isArr := cur.(bson.A)
			return !isArr
		}
		found := false
		for _, e := range d {
			if e.Key == segs[i] {
				cur = e.Value
				found = true
			}
		}
		if !found {
			return true
		}
	}
	return true
}

func flag(id string) interface{} {
	// truthy / falsy projection flags of every numeric and boolean spelling
	return vf.Value(id, "", 0, uint32(vf.Param("ftags", vf.TInt32|vf.TInt64|vf.TDouble|vf.TBool)), 0)
}

func isOne(v interface{}) bool {
	switch x := v.(type) {
	case bool:
		return x
	case int32:
		return x == 1
	case int64:
		return x == 1
	case float64:
		return x == 1
	}
	return false
}

func isZero(v interface{}) bool {
	switch x := v.(type) {
	case bool:
		return !x
	case int32:
		return x == 0
	case int64:
		return x == 0
	case float64:
		return x == 0
	}
	return false
}

// inclusion / exclusion of one or two paths, with optional _id suppression
func H_C14_inclexcl() {
	doc := c14Doc()
	p1 := vf.String("p1", "a,ab,a.a,a.ab")
	f1 := flag("f1")
	vf.Assume(isOne(f1) || isZero(f1))
	proj := bson.D{{Key: p1, Value: f1}}
	include := isOne(f1)
	paths := []string{p1}
	if vf.Bool("two") {
		p2 := vf.String("p2", "ab,a.ab,ab.a")
		vf.Assume(!related(p1, p2))
		var f2 interface{} = int32(0)
		if include {
			f2 = int32(1)
		}
		proj = append(proj, bson.E{Key: p2, Value: f2})
		paths = append(paths, p2)
	}
	hideID := false
	if vf.Bool("hideID") {
		hideID = true
		proj = append(proj, bson.E{Key: "_id", Value: vf.Value("fid", "", 0, vf.TInt32|vf.TBool, 0)})
		vf.Assume(isZero(proj[len(proj)-1].Value))
	}
	for _, p := range paths {
		vf.Assume(noArrayOnPath(doc, p))
	}
	vf.Freeze(&doc, "stored document during Project")
	res, err := Project(&doc, &proj)
	vf.Unfreeze()
	vf.Assert(err == nil, "projection failed")
	for _, q := range strings.Split(c14Probes, ",") {
		want := bsonkit.Get(&doc, q)
		got := bsonkit.Get(res, q)
		if q == "_id" {
			if hideID {
				vf.Assert(got == bsonkit.Missing, "_id not suppressed")
			} else {
				vf.Assert(vf.EqualValues(got, want), "_id not carried over")
			}
			continue
		}
		cov, rel := false, false
		for _, p := range paths {
			if covers(p, q) {
				cov = true
			}
			if related(p, q) {
				rel = true
			}
		}
		if include {
			if cov {
				vf.Assert(vf.EqualValues(got, want), "included path does not hold the stored value")
			} else if !rel {
				vf.Assert(got == bsonkit.Missing, "inclusion projection returned a path that was not requested")
			}
		} else {
			if cov {
				vf.Assert(got == bsonkit.Missing, "excluded path still present")
			} else if !rel {
				vf.Assert(vf.EqualValues(got, want), "exclusion projection lost or changed an unrelated path")
			}
		}
	}
	vf.ObserveBool("incl", include)
}

// mixing inclusion and exclusion is an error
func H_C14_mix() {
	doc := c14Doc()
	f1, f2 := flag("f1"), flag("f2")
	vf.Assume(isOne(f1) && isZero(f2))
	proj := bson.D{{Key: "a", Value: f1}, {Key: "b", Value: f2}}
	if vf.Bool("swap") {
		proj = bson.D{{Key: "b", Value: f2}, {Key: "a", Value: f1}}
	}
	_, err := Project(&doc, &proj)
	vf.ObserveBool("err", err != nil)
	vf.Assert(err != nil, "mixing inclusion and exclusion was accepted")
}

// $slice windows, computed in unbounded arithmetic (array length <= 3, integers full range)
func H_C14_slice() {
	n := vf.Choice("n", 4)
	arr := make(bson.A, n)
	for i := range arr {
		arr[i] = int32(i)
	}
	doc := bson.D{{Key: "_id", Value: int32(7)}, {Key: "a", Value: arr}, {Key: "b", Value: "x"}}
	spath := "a"
	nested := vf.Bool("nested")
	if nested {
		// the array sits inside an embedded document
		doc = bson.D{{Key: "_id", Value: int32(7)}, {Key: "a", Value: bson.D{{Key: "t", Value: arr}, {Key: "u", Value: int32(1)}}}, {Key: "b", Value: "x"}}
		spath = "a.t"
	}
	orig := *bsonkit.Clone(&doc)
	var arg interface{}
	var lo, hi int // expected window
	if vf.Bool("pair") {
		s, l := vf.Int64("s"), vf.Int64("l")
		vf.Assume(l >= 0)
		arg = bson.A{s, l}
		if vf.Bool("as32") {
			s32, l32 := vf.Int32("s32"), vf.Int32("l32")
			vf.Assume(l32 >= 0)
			s, l = int64(s32), int64(l32)
			arg = bson.A{s32, l32}
		}
		if s < 0 {
			if -s > int64(n) || s == -9223372036854775808 {
				lo = 0
			} else {
				lo = n + int(s)
			}
		} else if s > int64(n) {
			lo = n
		} else {
			lo = int(s)
		}
		if l > int64(n-lo) {
			hi = n
		} else {
			hi = lo + int(l)
		}
	} else {
		k := vf.Int64("k")
		arg = k
		switch {
		case k == 0:
			lo, hi = 0, 0
		case k > 0:
			lo, hi = 0, n
			if k < int64(n) {
				hi = int(k)
			}
		default:
			lo, hi = 0, n
			if k != -9223372036854775808 && -k < int64(n) {
				lo = n - int(-k)
			}
		}
	}
	proj := bson.D{{Key: spath, Value: bson.D{{Key: "$slice", Value: arg}}}}
	excl := vf.Bool("excl")
	if excl {
		proj = append(proj, bson.E{Key: "b", Value: int32(0)})
	}
	vf.Freeze(&doc, "stored document during $slice projection")
	res, err := Project(&doc, &proj)
	vf.Unfreeze()
	vf.Assert(err == nil, "$slice projection failed")
	got, ok := bsonkit.Get(res, spath).(bson.A)
	vf.Assert(ok, "$slice result is not an array")
	vf.Observe("len", int64(len(got)))
	vf.Assert(len(got) == hi-lo, "$slice window has the wrong length")
	for i := range got {
		vf.Assert(vf.EqualValues(got[i], arr[lo+i]), "$slice window holds the wrong element")
	}
	if excl {
		vf.Assert(bsonkit.Get(res, "b") == bsonkit.Missing, "excluded field still present")
	} else {
		vf.Assert(vf.EqualValues(bsonkit.Get(res, "b"), "x"), "$slice projection dropped other fields")
	}
	vf.Assert(vf.EqualValues(bsonkit.Get(res, "_id"), int32(7)), "$slice projection dropped _id")
	if nested {
		vf.Assert(vf.EqualValues(bsonkit.Get(res, "a.u"), int32(1)), "$slice projection dropped a sibling of the sliced array")
	}
	vf.Assert(vf.EqualValues(doc, orig), "Project changed the stored document")
	// a second, plain read still sees the full array
	full, ok2 := bsonkit.Get(&doc, spath).(bson.A)
	vf.Assert(ok2 && len(full) == n, "the stored array was truncated by the projection")
	// (results may share memory with the stored document at this level: callers of the driver API
	// only ever see codec copies; aliasing across that boundary is C17's subject)
}

// $elemMatch returns the first matching element
func H_C14_elem() {
	n := vf.Choice("n", 4)
	arr := make(bson.A, n)
	for i := range arr {
		arr[i] = vf.Value("e"+string(rune('0'+i)), "x", 1, vf.TInt32|vf.TString|vf.TDoc, 1)
	}
	doc := bson.D{{Key: "_id", Value: int32(7)}, {Key: "a", Value: arr}, {Key: "b", Value: "x"}}
	if vf.Bool("notArray") {
		// the targeted field holds a scalar or an embedded document: $elemMatch omits it
		nv := vf.Value("na", "x", 1, vf.TInt32|vf.TString|vf.TDoc|vf.TNull, 1)
		doc[1].Value = nv
		q := bson.D{{Key: "a", Value: bson.D{{Key: "$elemMatch", Value: bson.D{{Key: "$gte", Value: int32(0)}}}}}}
		r, err := Project(&doc, &q)
		vf.Assert(err == nil, "$elemMatch projection failed")
		vf.Assert(bsonkit.Get(r, "a") == bsonkit.Missing, "$elemMatch returned a field that is not an array")
		vf.Assert(vf.EqualValues(bsonkit.Get(r, "_id"), int32(7)), "$elemMatch projection lost _id")
		vf.Assert(bsonkit.Get(r, "b") == bsonkit.Missing, "$elemMatch projection returned a field that was not requested")
		return
	}
	orig := *bsonkit.Clone(&doc)
	c := vf.Int32("c")
	var cond bson.D
	byField := vf.Bool("byField")
	if byField {
		cond = bson.D{{Key: "x", Value: bson.D{{Key: "$gte", Value: c}}}}
	} else {
		cond = bson.D{{Key: "$gte", Value: c}}
	}
	proj := bson.D{{Key: "a", Value: bson.D{{Key: "$elemMatch", Value: cond}}}}
	res, err := Project(&doc, &proj)
	vf.Assert(err == nil, "$elemMatch projection failed")
	first := -1
	for i, e := range arr {
		var probe interface{} = e
		if byField {
			d, ok := e.(bson.D)
			if !ok {
				continue
			}
			probe = bsonkit.Get(&d, "x")
		}
		if x, ok := probe.(int32); ok && x >= c && first < 0 {
			first = i
		}
	}
	got := bsonkit.Get(res, "a")
	vf.Observe("first", int64(first))
	if first < 0 {
		vf.Assert(got == bsonkit.Missing, "$elemMatch returned an element although none matches")
	} else {
		ga, ok := got.(bson.A)
		vf.Assert(ok && len(ga) == 1, "$elemMatch did not return exactly one element")
		vf.Assert(vf.EqualValues(ga[0], arr[first]), "$elemMatch did not return the first matching element")
	}
	vf.Assert(vf.EqualValues(bsonkit.Get(res, "_id"), int32(7)), "$elemMatch projection lost _id")
	vf.Assert(bsonkit.Get(res, "b") == bsonkit.Missing, "$elemMatch projection returned a field that was not requested")
	vf.Assert(vf.EqualValues(doc, orig), "Project changed the stored document")
}
