#!/usr/bin/env python3
"""Regenerates /verif/MANIFEST.json from the table below."""
import json, os
HERE = os.path.dirname(os.path.dirname(os.path.abspath(__file__)))
BASE = json.load(open('/root/.vp/BASELINE.json'))
TECH = "bounded symbolic execution of /repo's go/ssa with an SMT solver (cvc5) deciding every branch and assertion; counterexamples replayed natively"
NOTE = ("trusted: go/packages+go/ssa lowering, the gosym interpreter (checked on every run by replaying solver models of complete paths natively and "
        "comparing observations), cvc5; outside every bound: Decimal128, regexp/$jsonSchema, the mongo-driver codec (DESIGN.md section 6)")
claimed = {
 "C12": ("5 C12", "For every pair/triple of supported non-decimal BSON values within the stated size bound the solver shows the Compare laws "
         "(range, antisymmetry, reflexivity, transitivity, congruence), the class order against a rank table, and agreement of all int32/int64/double "
         "pairs with exact arithmetic (binary128 embedding). Bounded model checking: all values inside the bound, nothing outside it."),
}
not_applicable = {}
props = [json.loads(l)["id"] for l in open(os.path.join(HERE, "properties.jsonl"))]
extra = os.path.join(HERE, "tools", "manifest_table.json")
if os.path.exists(extra):
    t = json.load(open(extra))
    claimed.update({k: tuple(v) for k, v in t.get("claimed", {}).items()})
    not_applicable.update(t.get("not_applicable", {}))
checks = []
for p in props:
    if p in claimed:
        ref, text = claimed[p]
        checks.append({
            "property_id": p,
            "quick_cmd": f"./check {p} quick",
            "thorough_cmd": f"./check {p} thorough",
            "evidence_file": f"/verif/evidence/{p}.json",
            "replay_cmd_template": "VERIF_REPLAY={path} ./tools/replay " + p,
            "engine": "gosym",
            "level_claimed": {"category": "model_checking", "text": text, "design_ref": ref},
            "level_note": NOTE,
            "technique": TECH,
        })
na = []
for p in props:
    if p not in claimed:
        na.append({"property_id": p, "reason": not_applicable.get(p, "check not built yet in this session (engine exists; harness pending) - see DESIGN.md section 9")})
m = {
 "version": 1,
 "setup_cmd": "cd /verif/engine && GOFLAGS=-mod=mod GOPROXY=off go build -o ../bin/gosym ./cmd/gosym",
 "hooks": {"guard": "verif", "enable": "none needed: harnesses and the vf package are injected by build overlay (packages.Config.Overlay / go test -overlay); /repo is not modified",
           "baseline_off_cmd": BASE["cmd"], "source_commits": [], "add_only": True},
 "engines": [{"name": "gosym", "path": "/verif/engine", "serves_properties": sorted(claimed), "kind_free_text": "symbolic interpreter for go/ssa (x/tools v0.50.0) emitting SMT-LIB2 to cvc5; harnesses in /verif/harness injected by overlay"}],
 "checks": checks,
 "not_applicable": na,
 "notes": "exit 0: property held on every path within the bounds; exit 1 + VIOLATION line: solver counterexample reproduced natively; exit 2: inconclusive (bound exceeded, solver unknown, encoding mismatch) - never reported as success",
}
json.dump(m, open(os.path.join(HERE, "MANIFEST.json"), "w"), indent=1)
print("claimed", sorted(claimed), "n/a", [x["property_id"] for x in na])
