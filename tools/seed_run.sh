#!/bin/bash
# usage: tools/seed_run.sh <seed-dir-name> <property> [tier]
# Applies a seeded change to /repo, runs the property's check, and restores /repo straight afterwards.
seed=$1; prop=$2; tier=${3:-quick}
cd /verif
git -C /repo diff --quiet || { echo "/repo not clean"; exit 2; }
git -C /repo apply /verif/seeded/$seed/patch.diff || { echo "patch failed"; exit 2; }
timeout ${SEED_TIMEOUT:-1500} ./check $prop $tier > /tmp/seedrun_$seed.log 2>&1; rc=$?
git -C /repo checkout -- .
v=$(grep -c '^VIOLATION' /tmp/seedrun_$seed.log)
first=$(grep -m1 'violation in' /tmp/seedrun_$seed.log | cut -c1-200)
inc=$(grep -c '^INCONCLUSIVE' /tmp/seedrun_$seed.log)
echo "$seed vs $prop/$tier: exit=$rc violations=$v inconclusive=$inc :: $first"
