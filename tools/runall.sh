#!/bin/bash
# usage: tools/runall.sh <tier> [props...]   - runs the checks one after the other, prints one line each
tier=${1:-quick}; shift
props=${@:-C12 C10 C14 C20 C13 C11 C05 C17 C18 C19 C06 C09 C04 C16 C03 C15 C07 C02 C08 C01}
cd /verif
for p in $props; do
  s=$(date +%s)
  ./check $p $tier > /tmp/runall_$p.log 2>&1; rc=$?
  e=$(date +%s)
  echo "$p $tier exit=$rc $((e-s))s :: $(grep -v '^\[' /tmp/runall_$p.log | grep -m2 'OK property\|VIOLATION\|INCONCLUSIVE\|KNOWN' | cut -c1-220 | tr '\n' ' ')"
done
