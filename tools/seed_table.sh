#!/bin/bash
# usage: tools/seed_table.sh [tier] [seed...]  - runs every seeded change against its property's check and
# (re)writes seeded/RESULTS.md. /repo must be clean; it is restored after every run.
tier=${1:-quick}; shift
cd /verif
seeds=${@:-$(ls seeded | grep -v RESULTS)}
extra() { case $1 in C10-3) echo C12;; C01-2) echo C13;; C17-3) echo C14;; *) echo "";; esac; }
out=seeded/RESULTS.md
[ -f $out ] || echo "| seed | property | check | result | first violation reported |" > $out
for s in $seeds; do
  prop=${s%%-*}
  for p in $prop $(extra $s); do
    git -C /repo diff --quiet || { echo "/repo not clean"; exit 2; }
    if ! git -C /repo apply seeded/$s/patch.diff 2>/dev/null; then
      if ! (cd /repo && patch -p1 -s --fuzz=3 --no-backup-if-mismatch < /verif/seeded/$s/patch.diff >/dev/null 2>&1); then
        git -C /repo checkout -- . ; git -C /repo clean -fdq
        line="| $s | $prop | $p/$tier | patch no longer applies (superseded by a fix commit) | |"
        grep -v "^| $s | $prop | $p/$tier " $out > $out.tmp; mv $out.tmp $out; echo "$line" >> $out; echo "$line"; continue
      fi
    fi
    (cd /repo && GOFLAGS=-mod=mod GOPROXY=off go build ./... >/dev/null 2>&1) || { git -C /repo checkout -- .; echo "$s does not build"; continue; }
    timeout ${SEED_TIMEOUT:-2400} ./check $p $tier > /tmp/seedrun_$s.log 2>&1; rc=$?
    git -C /repo checkout -- . ; git -C /repo clean -fdq
    v=$(grep -c '^VIOLATION' /tmp/seedrun_$s.log)
    first=$(grep -m1 'violation in' /tmp/seedrun_$s.log | sed 's/^ *violation in //' | cut -c1-160 | tr '|' '/')
    inc=$(grep -m1 '^INCONCLUSIVE' /tmp/seedrun_$s.log | cut -c1-160 | tr '|' '/')
    if [ $rc -eq 1 ] && [ $v -gt 0 ]; then res="CAUGHT ($v)"; elif [ $rc -eq 0 ]; then res="missed"; else res="inconclusive (exit $rc)"; first="$inc"; fi
    line="| $s | $prop | $p/$tier | $res | $first |"
    grep -v "^| $s | $prop | $p/$tier " $out > $out.tmp; mv $out.tmp $out; echo "$line" >> $out; echo "$line"
  done
done
