#!/bin/bash
# usage: tools/seed_verify.sh <worktree> <prop> <i>
# Confirms a seeded change in its scratch worktree: builds, passes the runnable tests, demo fails with it and passes without.
export GOFLAGS=-mod=mod GOPROXY=off
wt=$1; prop=$2; i=$3
sd=$wt/seed/$i
cd $wt || exit 2
git checkout -q -- . 2>/dev/null
run_demo() {
  if [ -d $wt/seeddemo$i ]; then (cd $wt && timeout 300 go run ./seeddemo$i >/dev/null 2>&1); return $?; fi
  # test-file demo (package bsonkit)
  f=$(ls $sd/*_test.go 2>/dev/null | head -1)
  [ -z "$f" ] && return 99
  pkg=$(grep -m1 '^package ' $f | awk '{print $2}')
  cp $f $wt/$pkg/zz_seeddemo_test.go
  (cd $wt && timeout 300 go test -vet=off -count=1 -run 'Seed|Demo' ./$pkg >/dev/null 2>&1); rc=$?
  rm -f $wt/$pkg/zz_seeddemo_test.go
  return $rc
}
run_demo; clean=$?
git apply $sd/patch.diff || { echo "$prop/$i: patch does not apply"; exit 1; }
go build ./... >/dev/null 2>&1; b=$?
go test -vet=off -count=1 ./bsonkit ./dbkit >/dev/null 2>&1; t=$?
run_demo; mut=$?
git checkout -q -- .
echo "$prop/$i: build=$b tests=$t demo_clean=$clean demo_mutant=$mut"
