package main

// Harness is one harness function with per-tier parameters.
type Harness struct {
	Dir      string         // package dir relative to /repo ("." for the root package)
	Func     string         // H_...
	Quick    map[string]int // nil: not part of the quick tier
	Thorough map[string]int
	MapPerm  int
	Conc     bool
	StrPool  []string
	Note     string
}

type Check struct {
	Property string
	Harnesses []Harness
}

var checks = []Check{}

func cmdCheck(prop, tier string) int { return 2 }
