package main

// Harness is one harness function with per-tier parameters.
type Harness struct {
	Dir      string         // package dir relative to /repo ("." for the root package)
	Func     string         // H_...
	Quick    map[string]int // nil: not part of the quick tier
	Thorough map[string]int
	MapPerm  int
	Conc     bool
	StrPool  []string
	Note     string
}

type Check struct {
	Property    string
	Harnesses   []Harness
	Assumptions []string
	Bounds      []string
}

type P = map[string]int

// tag bits (mirror of vf)
const (
	TNull = 1 << iota
	TInt32
	TInt64
	TDouble
	TString
	TBool
	TDate
	TTimestamp
	TObjectID
	TBinary
	TRegex
	TArray
	TDoc
	TMissing
	TFlatArr
	TNumbers = TInt32 | TInt64 | TDouble
	TScalars = TNull | TInt32 | TInt64 | TDouble | TString | TBool | TDate | TTimestamp | TObjectID | TBinary | TRegex
	TAll     = TScalars | TArray | TDoc
)

var commonAssumptions = []string{
	"go/packages + go/ssa preserve the source semantics; gosym implements each SSA instruction, Go's integer wrap-around and amd64 float->int conversion correctly (validated per run by replaying solver models natively and comparing observations)",
	"cvc5 1.0.3 answers are correct; unknown/timeout/(error is reported as inconclusive, never as success",
	"strings are concrete on every path (finite pools stated in bounds); Decimal128, regexp/$jsonSchema and the reflection-driven mongo-driver codec are outside every bound (DESIGN.md section 6)",
}

// lemma harnesses: the engine defers clones of values whose type is still undecided and treats such a
// clone as equal to (and, for lemCloneFresh, disjoint from) its source; every property whose harnesses
// clone undecided values re-checks the lemma on the real code (eagerclone=1 disables the deferral).
var lemClone = Harness{Dir: "bsonkit", Func: "H_LEM_clone", Quick: P{"eagerclone": 1, "depth": 1}, Thorough: P{"eagerclone": 1, "depth": 2, "tags": TAll | TFlatArr},
	Note: "lemma: Clone/ConvertValue preserve values"}
var lemCloneFresh = Harness{Dir: "bsonkit", Func: "H_LEM_clone_fresh", Quick: P{"eagerclone": 1, "depth": 1}, Thorough: P{"eagerclone": 1, "depth": 2, "tags": (TAll &^ TBinary) | TFlatArr},
	Note: "lemma: a clone shares no mutable memory with its source (binary payloads excepted, as documented)"}

const c10Tags =TNull | TInt32 | TInt64 | TDouble | TString | TBool | TArray | TDoc

var checks = []Check{
	{
		Property: "C10",
		Harnesses: []Harness{
			{Dir: "mongokit", Func: "H_C10_gte", Quick: P{"ddepth": 1, "vdepth": 0, "dlen": 1}, Thorough: P{"ddepth": 2, "vdepth": 1}},
			{Dir: "mongokit", Func: "H_C10_neg", Quick: P{"ddepth": 1, "vdepth": 0, "dlen": 1}, Thorough: P{"ddepth": 2, "vdepth": 1}},
			{Dir: "mongokit", Func: "H_C10_in", Quick: P{"ddepth": 0, "vdepth": 0, "dlen": 1}, Thorough: P{"ddepth": 1, "vdepth": 1}},
			{Dir: "mongokit", Func: "H_C10_andor", Quick: P{"ddepth": 0, "vdepth": 0, "dlen": 2, "dtags": TNull | TInt32 | TString, "vtags": TInt32 | TString},
				Thorough: P{"ddepth": 1, "vdepth": 0, "dlen": 2, "dtags": TNull | TInt32 | TDouble | TString | TArray, "vtags": TInt32 | TDouble | TString}},
			{Dir: "mongokit", Func: "H_C10_refcmp", Quick: P{"ddepth": 1, "vdepth": 0, "dlen": 1}, Thorough: P{"ddepth": 2, "vdepth": 1}},
			{Dir: "mongokit", Func: "H_C10_refmisc", Quick: P{"ddepth": 1, "dlen": 1}, Thorough: P{"ddepth": 2}},
		},
		Assumptions: commonAssumptions,
		Bounds: []string{"document: <= 2 fields (keys a,b), values null/int32/int64/double/string/bool/array/document, arrays and sub-documents of length <= 2, nesting depth ddepth; paths from {a,b,a.a,a.0,a.0.a,c}; operands any value of the same domain with depth vdepth",
			"oracle harnesses (refcmp, refmisc) restrict to the core domain of the property: no arrays directly inside arrays; fan-out over sub-documents only with a non-null scalar operand",
			"outside: $jsonSchema, Decimal128, regex operands, date/timestamp/objectid/binary field values in the filter harnesses (covered for Compare by C12)"},
	},
	{
		Property: "C14",
		Harnesses: []Harness{
			{Dir: "mongokit", Func: "H_C14_inclexcl", Quick: P{"ddepth": 1, "ftags": TInt32 | TBool, "tags": TNull | TInt32 | TString | TArray | TDoc | TFlatArr}, Thorough: P{"ddepth": 2}},
			lemClone, lemCloneFresh,
			{Dir: "mongokit", Func: "H_C14_mix", Quick: P{"ddepth": 0}, Thorough: P{"ddepth": 1}},
			{Dir: "mongokit", Func: "H_C14_slice", Quick: P{}, Thorough: P{}},
			{Dir: "mongokit", Func: "H_C14_elem", Quick: P{}, Thorough: P{}},
		},
		Assumptions: commonAssumptions,
		Bounds: []string{"document {_id?, a?, b?}: a,b scalars (null,int32,double,string,bool), arrays (<=2) of them, or embedded documents (keys a,b, <=2 fields) of those, depth as stated; projection of 1-2 unrelated paths from {a,b,a.a,a.b,b.a} with flags of every numeric/bool spelling; _id suppression; paths that cross an array before the last segment are assumed away (outside the property's domain)",
			"$slice: arrays of length 0..3, count and [skip,limit] forms with full-range int64 (and int32) arguments, expected window computed without overflow",
			"$elemMatch: arrays of length 0..3 of int32/string/{x:..} elements, conditions {$gte:c} and {x:{$gte:c}}",
			"result order of fields is not compared (the property speaks of paths and values)"},
	},
	{
		Property: "C20",
		Harnesses: []Harness{
			{Dir: "mongokit", Func: "H_C20_match_leaf", Quick: P{"path_n": 4, "ctags": TNull | TInt32 | TString}, Thorough: P{}},
			{Dir: "mongokit", Func: "H_C20_match_top", Quick: P{"path_n": 4, "ctags": TNull | TInt32 | TString}, Thorough: P{}},
			{Dir: "mongokit", Func: "H_C20_match_nested", Thorough: P{}},
			{Dir: "mongokit", Func: "H_C20_match_num", Thorough: P{}},
			{Dir: "mongokit", Func: "H_C20_apply_basic", Quick: P{"path_n": 6}, Thorough: P{}},
			{Dir: "mongokit", Func: "H_C20_apply_push", Thorough: P{}},
			{Dir: "mongokit", Func: "H_C20_apply_spec", Quick: P{}, Thorough: P{}},
			{Dir: "mongokit", Func: "H_C20_apply_raw", Quick: P{}, Thorough: P{}},
			{Dir: "mongokit", Func: "H_C20_apply_filters", Quick: P{}, Thorough: P{}},
			{Dir: "mongokit", Func: "H_C20_project", Quick: P{}, Thorough: P{"ddepth": 2}},
			{Dir: "mongokit", Func: "H_C20_sort", Thorough: P{}},
			{Dir: "mongokit", Func: "H_C20_coll", Quick: P{"ddepth": 0, "ctags": TNull | TInt32 | TString}, Thorough: P{"ddepth": 1}},
			{Dir: "mongokit", Func: "H_C20_window", Quick: P{}, Thorough: P{}},
		},
		Assumptions: commonAssumptions,
		Bounds: []string{"document under operation: {} or {a: X}; operator arguments V: any supported non-decimal type at the top level (all 13 tags), nested values from ctags (default null,int32,double,string,array,document), containers of length <= 2 (3 for modifier documents), depth <= 2",
			"each run makes either X or V structurally rich and the other a scalar of any type (parameter both=1 lifts this); paths from the pool incl. empty and degenerate ones; operator names incl. unknown and empty",
			"$bits masks restricted to <= 3 set bits and $mod operands to representative magnitudes (loops over the bits of a symbolic mask and 64-bit symbolic remainders are not explorable)",
			"skip/limit: every non-negative int; negative skip is rejected by assumption (MongoDB rejects it; lungo panics on it: see DESIGN.md findings)",
			"outside: $jsonSchema, Decimal128, regex; driver-level calls are covered as far as C01/C17 harnesses reach them"},
	},
	{
		Property: "C12",
		Harnesses: []Harness{
			{Dir: "bsonkit", Func: "H_C12_antisym", Quick: P{"tags": TScalars, "depth": 0}, Thorough: P{"tags": TAll, "depth": 2}},
			{Dir: "bsonkit", Func: "H_C12_class", Quick: P{"tags": TAll, "depth": 1}, Thorough: P{"tags": TAll, "depth": 1}},
			{Dir: "bsonkit", Func: "H_C12_exact", Quick: P{}, Thorough: P{}},
			{Dir: "bsonkit", Func: "H_C12_trans", Quick: P{"tags": TNull | TNumbers | TString | TBool, "depth": 0}, Thorough: P{"tags": TScalars | TArray, "depth": 1}},
		},
		Assumptions: commonAssumptions,
		Bounds: []string{"scalars: every value of every supported non-decimal type (int32/int64/double full range incl. NaN, +-Inf, +-0; strings from pool {\"\",a,b}; binary length <= 2; ObjectID bytes 0 and 11 symbolic); containers: length <= 2, keys from {a,b}, nesting depth as stated per harness",
			"outside: Decimal128 (math/big code, not encodable): the known non-finite-decimal ordering defect is invisible to this check"},
	},
}
