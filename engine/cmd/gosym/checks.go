package main

// Harness is one harness function with per-tier parameters.
type Harness struct {
	Dir      string         // package dir relative to /repo ("." for the root package)
	Func     string         // H_...
	Quick    map[string]int // nil: not part of the quick tier
	Thorough map[string]int
	MapPerm  int
	Conc     bool
	StrPool  []string
	Note     string
}

type Check struct {
	Property    string
	Harnesses   []Harness
	Assumptions []string
	Bounds      []string
}

type P = map[string]int

// tag bits (mirror of vf)
const (
	TNull = 1 << iota
	TInt32
	TInt64
	TDouble
	TString
	TBool
	TDate
	TTimestamp
	TObjectID
	TBinary
	TRegex
	TArray
	TDoc
	TMissing
	TFlatArr
	TNumbers = TInt32 | TInt64 | TDouble
	TScalars = TNull | TInt32 | TInt64 | TDouble | TString | TBool | TDate | TTimestamp | TObjectID | TBinary | TRegex
	TAll     = TScalars | TArray | TDoc
)

var commonAssumptions = []string{
	"go/packages + go/ssa preserve the source semantics; gosym implements each SSA instruction, Go's integer wrap-around and amd64 float->int conversion correctly (validated per run by replaying solver models natively and comparing observations)",
	"cvc5 1.0.3 answers are correct; unknown/timeout/(error is reported as inconclusive, never as success",
	"strings are concrete on every path (finite pools stated in bounds); Decimal128, regexp/$jsonSchema and the reflection-driven mongo-driver codec are outside every bound (DESIGN.md section 6)",
}

const c10Tags = TNull | TInt32 | TInt64 | TDouble | TString | TBool | TArray | TDoc

var checks = []Check{
	{
		Property: "C10",
		Harnesses: []Harness{
			{Dir: "mongokit", Func: "H_C10_gte", Quick: P{"ddepth": 1, "vdepth": 0, "dlen": 1}, Thorough: P{"ddepth": 2, "vdepth": 1}},
			{Dir: "mongokit", Func: "H_C10_neg", Quick: P{"ddepth": 1, "vdepth": 0, "dlen": 1}, Thorough: P{"ddepth": 2, "vdepth": 1}},
			{Dir: "mongokit", Func: "H_C10_in", Quick: P{"ddepth": 0, "vdepth": 0, "dlen": 1}, Thorough: P{"ddepth": 1, "vdepth": 1}},
			{Dir: "mongokit", Func: "H_C10_andor", Quick: P{"ddepth": 0, "vdepth": 0, "dlen": 2, "dtags": TNull | TInt32 | TString, "vtags": TInt32 | TString},
				Thorough: P{"ddepth": 1, "vdepth": 0, "dlen": 2, "dtags": TNull | TInt32 | TDouble | TString | TArray, "vtags": TInt32 | TDouble | TString}},
			{Dir: "mongokit", Func: "H_C10_refcmp", Quick: P{"ddepth": 1, "vdepth": 0, "dlen": 1}, Thorough: P{"ddepth": 2, "vdepth": 1}},
			{Dir: "mongokit", Func: "H_C10_refmisc", Quick: P{"ddepth": 1, "dlen": 1}, Thorough: P{"ddepth": 2}},
		},
		Assumptions: commonAssumptions,
		Bounds: []string{"document: <= 2 fields (keys a,b), values null/int32/int64/double/string/bool/array/document, arrays and sub-documents of length <= 2, nesting depth ddepth; paths from {a,b,a.a,a.0,a.0.a,c}; operands any value of the same domain with depth vdepth",
			"oracle harnesses (refcmp, refmisc) restrict to the core domain of the property: no arrays directly inside arrays; fan-out over sub-documents only with a non-null scalar operand",
			"outside: $jsonSchema, Decimal128, regex operands, date/timestamp/objectid/binary field values in the filter harnesses (covered for Compare by C12)"},
	},
	{
		Property: "C12",
		Harnesses: []Harness{
			{Dir: "bsonkit", Func: "H_C12_antisym", Quick: P{"tags": TScalars, "depth": 0}, Thorough: P{"tags": TAll, "depth": 2}},
			{Dir: "bsonkit", Func: "H_C12_class", Quick: P{"tags": TAll, "depth": 1}, Thorough: P{"tags": TAll, "depth": 1}},
			{Dir: "bsonkit", Func: "H_C12_exact", Quick: P{}, Thorough: P{}},
			{Dir: "bsonkit", Func: "H_C12_trans", Quick: P{"tags": TNull | TNumbers | TString | TBool, "depth": 0}, Thorough: P{"tags": TScalars | TArray, "depth": 1}},
		},
		Assumptions: commonAssumptions,
		Bounds: []string{"scalars: every value of every supported non-decimal type (int32/int64/double full range incl. NaN, +-Inf, +-0; strings from pool {\"\",a,b}; binary length <= 2; ObjectID bytes 0 and 11 symbolic); containers: length <= 2, keys from {a,b}, nesting depth as stated per harness",
			"outside: Decimal128 (math/big code, not encodable): the known non-finite-decimal ordering defect is invisible to this check"},
	},
}
