package main

// Harness is one harness function with per-tier parameters.
type Harness struct {
	Dir      string         // package dir relative to /repo ("." for the root package)
	Func     string         // H_...
	Quick    map[string]int // nil: not part of the quick tier
	Thorough map[string]int
	MapPerm  int
	Conc     bool
	StrPool  []string
	Note     string
	// ModelOnly: the harness runs against an environment model of the engine (symbolic file system,
	// scheduler) that has no native counterpart; its counterexamples are reported as found in the model.
	ModelOnly bool
	// ClockModel: the harness depends on the instants returned by the engine's clock model; a
	// counterexample is replayed natively, but when it does not reproduce there (the wall clock cannot be
	// steered) it is still reported, as found in the clock model; witness observations are not compared.
	ClockModel bool
}

type Check struct {
	Property    string
	Harnesses   []Harness
	Assumptions []string
	Bounds      []string
}

type P = map[string]int

// tag bits (mirror of vf)
const (
	TNull = 1 << iota
	TInt32
	TInt64
	TDouble
	TString
	TBool
	TDate
	TTimestamp
	TObjectID
	TBinary
	TRegex
	TArray
	TDoc
	TMissing
	TFlatArr
	TNumbers = TInt32 | TInt64 | TDouble
	TScalars = TNull | TInt32 | TInt64 | TDouble | TString | TBool | TDate | TTimestamp | TObjectID | TBinary | TRegex
	TAll     = TScalars | TArray | TDoc
)

var commonAssumptions = []string{
	"go/packages + go/ssa preserve the source semantics; gosym implements each SSA instruction, Go's integer wrap-around and amd64 float->int conversion correctly (validated per run by replaying solver models natively and comparing observations)",
	"cvc5 1.0.3 answers are correct; unknown/timeout/(error is reported as inconclusive, never as success",
	"strings are concrete on every path (finite pools stated in bounds); Decimal128, regexp/$jsonSchema and the reflection-driven mongo-driver codec are outside every bound (DESIGN.md section 6)",
}

// lemma harnesses: the engine defers clones of values whose type is still undecided and treats such a
// clone as equal to (and, for lemCloneFresh, disjoint from) its source; every property whose harnesses
// clone undecided values re-checks the lemma on the real code (eagerclone=1 disables the deferral).
var lemClone = Harness{Dir: "bsonkit", Func: "H_LEM_clone", Quick: P{"eagerclone": 1, "depth": 2, "tags": TNull | TInt32 | TString | TBinary | TArray | TDoc}, Thorough: P{"eagerclone": 1, "depth": 2, "tags": TAll | TFlatArr},
	Note: "lemma: Clone/ConvertValue preserve values"}
var lemCloneFresh = Harness{Dir: "bsonkit", Func: "H_LEM_clone_fresh", Quick: P{"eagerclone": 1, "depth": 2, "tags": TNull | TInt32 | TString | TArray | TDoc}, Thorough: P{"eagerclone": 1, "depth": 2, "tags": (TAll &^ TBinary) | TFlatArr},
	Note: "lemma: a clone shares no mutable memory with its source (binary payloads excepted, as documented)"}

var schedAssumptions = append([]string{"scheduler model (engine/sched.go): goroutines of the interpreted program are interleaved only at synchronisation operations (mutex lock, channel send/receive, select, go, goroutine end, WaitGroup.Wait); this covers all behaviours of data-race-free programs - freedom from data races on Engine/Session/Stream/Transaction fields is assumed, not checked",
	"sync.Mutex/RWMutex, channels, select, sync/atomic, time.Timer/Ticker are modelled by the engine; context and gopkg.in/tomb.v2 run from their real SSA; timers fire only when no goroutine can run",
	"counterexamples are schedules of the model and are not replayed natively (the Go scheduler cannot be steered without hooks)"}, commonAssumptions...)

// operation kinds of harness/root/state.go
const (
	opInsert = iota
	opReplace
	opUpdateOne
	opUpdateMany
	opDelete
	opUpsert
	opCount
	opCreateIndex
	opDropIndex
	opDrop
	opClean
	opExpire
	opInsertMany
	opBulk
)

var opNames = map[int]string{opCreateIndex: "index creation", opDropIndex: "index drop", opDrop: "namespace / database drop", opClean: "retention", opExpire: "expiry pass", opInsertMany: "insert-many with individually failing items", opBulk: "bulk write with individually failing items"}

// stepFamily: the inductive-step harness H_STEP for one property: all single-document writes from the
// canonical state, plus one small run per additional operation kind.
func stepFamily(prop int, extra []int) []Harness {
	hs := []Harness{{Dir: ".", Func: "H_STEP", Quick: P{"prop": prop, "maxdocs": 1, "tags": stQuickTags, "ctags": TInt32}, Thorough: P{"prop": prop, "maxdocs": 1, "tags": stQuickTags | TDouble, "ctags": TInt32},
		Note: "insert / replace / update-one / update-many / delete / upsert from the canonical state"}}
	for _, op := range extra {
		q := P{"prop": prop, "maxdocs": 1, "op": op, "tags": TInt32 | TString, "ctags": TInt32}
		t := P{"prop": prop, "maxdocs": 2, "op": op, "tags": TInt32 | TString, "ctags": TInt32}
		if op == opInsertMany || op == opBulk {
			// two items per call: keep the value domain small in the quick tier
			q["partial"] = 0
			q["useb"] = 0
			q["tags"] = TInt32
			t["maxdocs"] = 1
			t["tags"] = TInt32 | TString
			t["partial"] = 0
			if op == opBulk {
				t["tags"] = TInt32
				t["useb"] = 0
			}
		}
		hs = append(hs, Harness{Dir: ".", Func: "H_STEP", Quick: q, Thorough: t, Note: opNames[op]})
	}
	return hs
}

const stQuickTags = TNull | TInt32 | TString | TArray

var stBounds = []string{"canonical state: namespace db.c with <= maxdocs documents {_id: i, a?: X, b?: Y} inserted through the real Transaction.Insert, optional secondary index on a (unique or not, partial {b: {$gt: c}} or not); X from tags (arrays <= 2 elements of ctags), Y int32/null",
	"operation: insert (with/without _id), replace, update-one, update-many, delete (one/many), upsert with filters {}, {_id: k}, {a: v} and updates $set a, $inc a, $set b, $push a; index create (a or b, unique, partial), index drop, namespace/database drop, retention, expiry where stated",
	"outside: Decimal128, compound indexes, more documents than stated (covered by the induction argument), the codec"}

const c10Tags = TNull | TInt32 | TInt64 | TDouble | TString | TBool | TArray | TDoc

var checks = []Check{
	{
		Property: "C10",
		Harnesses: []Harness{
			{Dir: "mongokit", Func: "H_C10_gte", Quick: P{"ddepth": 1, "vdepth": 0, "dlen": 1}, Thorough: P{"ddepth": 1, "vdepth": 0, "dlen": 2}},
			{Dir: "mongokit", Func: "H_C10_neg", Quick: P{"ddepth": 1, "vdepth": 0, "dlen": 1}, Thorough: P{"ddepth": 1, "vdepth": 0, "dlen": 2}},
			{Dir: "mongokit", Func: "H_C10_in", Quick: P{"ddepth": 0, "vdepth": 0, "dlen": 1}, Thorough: P{"ddepth": 1, "vdepth": 0, "dlen": 1}},
			{Dir: "mongokit", Func: "H_C10_andor", Quick: P{"ddepth": 0, "vdepth": 0, "dlen": 2, "dtags": TNull | TInt32 | TString, "vtags": TInt32 | TString},
				Thorough: P{"ddepth": 0, "vdepth": 0, "dlen": 2, "dtags": TNull | TInt32 | TDouble | TString, "vtags": TInt32 | TDouble | TString}},
			{Dir: "mongokit", Func: "H_C10_refcmp", Quick: P{"ddepth": 1, "vdepth": 0, "dlen": 1}, Thorough: P{"ddepth": 1, "vdepth": 0, "dlen": 2}},
			{Dir: "mongokit", Func: "H_C10_not2", Quick: P{"ddepth": 0, "vdepth": 0, "dlen": 1, "dtags": TNull | TInt32 | TString | TArray, "vtags": TInt32 | TString}, Thorough: P{"ddepth": 1, "vdepth": 0, "dlen": 1}},
			{Dir: "mongokit", Func: "H_C10_reftype", Quick: P{"ddepth": 1, "dlen": 1}, Thorough: P{"ddepth": 2}},
			{Dir: "mongokit", Func: "H_C10_refmisc", Quick: P{"ddepth": 1, "dlen": 1}, Thorough: P{"ddepth": 1, "dlen": 1}},
			{Dir: "mongokit", Func: "H_C10_refall", Quick: P{}, Thorough: P{}, Note: "$all / $size against reference semantics"},
			{Dir: "mongokit", Func: "H_C10_refelem", Quick: P{}, Thorough: P{}, Note: "$elemMatch (operator and document form) against reference semantics"},
			{Dir: "mongokit", Func: "H_C10_refnum", Quick: P{}, Thorough: P{}, Note: "$mod and $bitsAllSet/$bitsAnySet/... against integer arithmetic"},
		},
		Assumptions: commonAssumptions,
		Bounds: []string{"document: <= 2 fields (keys a,b), values null/int32/int64/double/string/bool/array/document, arrays and sub-documents of length <= 2, nesting depth ddepth; paths from {a,b,a.a,a.0,a.0.a,c}; operands any value of the same domain with depth vdepth",
			"oracle harnesses (refcmp, refmisc) restrict to the core domain of the property: no arrays directly inside arrays; fan-out over sub-documents only with a non-null scalar operand",
			"$all/$size/$elemMatch: field a missing, scalar or array (<= 3 elements of int32/string/{x:int32}); $mod: divisor 1..4 of either sign, |field| < 2^20 (64-bit symbolic remainder is out of the solver's reach beyond that); bit operators: masks over bits 0..2, field any int32/int64",
			"outside: $jsonSchema, Decimal128, regex operands, date/timestamp/objectid/binary field values in the filter harnesses (covered for Compare by C12)"},
	},
	{
		Property: "C01",
		Harnesses: []Harness{
			{Dir: ".", Func: "H_C01_call", Quick: P{"maxdocs": 2, "tags": TNull | TInt32 | TString | TArray, "fixedclock": 1}, Thorough: P{"maxdocs": 2, "tags": TNull | TInt32 | TDouble | TString | TArray, "fixedclock": 1}},
			{Dir: ".", Func: "H_C01_multi", Quick: P{"call": 0, "uniqa": 1, "maxdocs": 1, "tags": TNull | TInt32, "fixedclock": 1}, Thorough: P{"call": 0, "uniqa": 1, "maxdocs": 1, "tags": TNull | TInt32 | TString, "fixedclock": 1}, Note: "InsertMany under a unique secondary index, then an insert that reuses the _id or key of a rejected item"},
			{Dir: ".", Func: "H_C01_multi", Quick: P{"maxdocs": 2, "fixedclock": 1}, Thorough: P{"maxdocs": 2, "tags": TNull | TInt32 | TDouble | TString | TArray, "fixedclock": 1}, Note: "InsertMany (ordered/unordered, duplicates), FindOneAndDelete/Replace, BulkWrite, index management through IndexView, failed insert + upsert + UpdateMany"},
			lemClone,
		},
		Assumptions: append([]string{"the sequential model is a list of documents in insertion order plus the operator semantics of mongokit.Match / bsonkit.Put, which C10/C11 check against MongoDB's definitions separately; the BSON codec is stubbed as a structure-preserving copy",
			"engine, client, collection, cursor, tomb and context code runs from its real SSA (sequential scheduler: background goroutines run only when the caller blocks)"}, commonAssumptions...),
		Bounds: []string{"pre-state: 0..maxdocs documents {_id: i, a?: X} inserted through InsertOne; then ONE call: InsertOne (with/without _id, duplicate ids), CountDocuments (skip/limit), UpdateOne/UpdateMany ($set), DeleteOne/DeleteMany, ReplaceOne (with/without upsert), FindOneAndUpdate (Before/After), Find (sort by _id, skip, limit), Drop (+re-insert); filters {}, {_id: k}, {a: v}",
			"after the call Find({}) must equal the model; two-call interactions beyond 'setup inserts + call' and longer histories rest on the one-step argument of DESIGN.md 3.4 (C15/C02/C08 steps)",
			"second family (H_C01_multi): InsertMany of two documents ordered/unordered with arbitrary int32 ids; FindOneAndDelete; FindOneAndReplace (Before/After); ordered BulkWrite insert+update+delete; IndexView CreateOne (unique or not, identical and conflicting re-creation), DropAll, List; failed InsertOne followed by an upserting UpdateOne and an UpdateMany",
			"outside: Distinct (C13), projections (C14), options not listed"},
	},
	{
		Property: "C17",
		Harnesses: []Harness{
			{Dir: ".", Func: "H_C17_driver", Quick: P{"fixedclock": 1}, Thorough: P{"fixedclock": 1}, Note: "driver API: returned ids, distinct values, decoded documents and arguments vs the engine's catalog"},
			{Dir: ".", Func: "H_C17_txn", Quick: P{"maxdocs": 1, "tags": TInt32 | TString | TArray, "ctags": TInt32, "fixedclock": 1}, Thorough: P{"maxdocs": 1, "tags": stQuickTags | TDoc, "ctags": TInt32, "fixedclock": 1}, Note: "engine-level inserts and replacements are cloned"},
			lemClone, lemCloneFresh,
		},
		Assumptions: append([]string{"reachability monitor: two values alias iff a mutable heap slot (slice backing array, map, pointer target) of the engine heap is reachable from both; this decides aliasing without guessing which mutation would expose it",
			"the BSON codec (bsonkit.Transform / Decode) is stubbed as a structure-preserving copy into fresh memory (its contract); aliasing that the real codec itself would introduce or remove (e.g. Binary data sharing inside the driver) is outside the claim"}, commonAssumptions...),
		Bounds: []string{"driver level: InsertOne, InsertMany, UpdateOne(upsert), Distinct, FindOne().Decode with an _id that is an int32, string, document, array or binary, and nested array/document field values", "transaction level: Insert and Replace(+upsert) from the canonical state with an argument holding nested containers"},
	},
	{
		Property: "C18",
		Harnesses: []Harness{
			{Dir: ".", Func: "H_C18_upload", Quick: P{"maxlen": 5}, Thorough: P{"maxlen": 8, "maxchunk": 4, "maxbuf": 6}},
			{Dir: ".", Func: "H_C18_download", Quick: P{"maxlen": 5, "steps": 3, "rsr": 1, "onewrite": 1, "maxread": 3, "maxchunk": 3, "maxbuf": 3}, Thorough: P{"maxlen": 5, "steps": 3, "rsr": 1, "maxread": 3, "maxchunk": 3, "maxbuf": 3}},
			{Dir: ".", Func: "H_C18_tracked", Quick: P{"maxlen": 5, "cycles": 2, "fixedclock": 1}, Thorough: P{"maxlen": 7, "cycles": 3, "maxchunk": 4, "maxbuf": 5, "fixedclock": 1}, Note: "tracked upload lifecycle: suspend/resume cycles, abort, failed marker update in Close followed by Resume, claim, delete + cleanup"},
			{Dir: ".", Func: "H_C18_delete", Quick: P{"maxlen": 4, "onewrite": 1}, Thorough: P{"maxlen": 6}, Note: "untracked Delete removes the record and every chunk of that file only"},
		},
		Assumptions: append([]string{"the real UploadStream/DownloadStream code runs against in-memory mock collections written in the harness (insert copies the chunk bytes as the codec would; Find returns the file's chunks sorted by n after skip); the collection layer under the bucket is C01's subject",
			"streams are built in-package with a small upload buffer: the code uses len(s.buffer) only, so the 16 MiB constant is a parameter"}, commonAssumptions...),
		Bounds: []string{"content of 0..maxlen arbitrary bytes, chunk size 1..maxchunk, upload buffer 1..maxbuf with chunk size <= buffer size (a chunk larger than the buffer makes Write spin forever: outside the domain, noted in DESIGN.md), the content split into three writes at arbitrary cut points",
			"download: scripts of <= steps operations, each a Read with a buffer of 0..maxread bytes or a Seek with any offset in (-10^6, 10^6) and any whence, compared step by step with an in-memory reference reader",
			"lifecycle: tracked bucket with a mock markers collection; <= cycles rounds of Write(part) / Suspend / new stream / Resume at arbitrary cut points (incl. before the first byte), then the rest of the content and one of: Close + ClaimUpload (+ Delete + Cleanup), Abort, or Close with a failing marker update followed by a Resume attempt from a new stream (continue if accepted, Cleanup if refused); after a completed upload the record, the chunks and a full download through the real DownloadStream equal the content; offsets reported by Suspend/Resume equal the bytes stored",
			"outside: concurrent use of one stream, Cleanup races with ClaimUpload, sizes beyond the bound"},
	},
	{
		Property: "C16",
		Harnesses: []Harness{
			{Dir: ".", Func: "H_C16_protocol", Quick: P{"actors": 2, "preempt": 1, "partners": 1, "fixedclock": 1}, Thorough: P{"actors": 2, "preempt": 1, "partners": 2, "fixedclock": 1}, Conc: true, ModelOnly: true},
			{Dir: ".", Func: "H_C05_engine", Quick: P{"fixedclock": 1}, Thorough: P{}, Note: "a failing store: error reported, state unchanged, slot released, later commits work"},
			{Dir: ".", Func: "H_C16_shutdown", Quick: P{"preempt": 2, "fixedclock": 1}, Thorough: P{"preempt": 3, "fixedclock": 1}, Conc: true, ModelOnly: true, Note: "Close while a Begin (background, cancellable or nil context) is blocked behind an active writer: released with the closed error, not by the token timeout"},
		},
		Assumptions: schedAssumptions,
		Bounds: []string{"2 actors, each one of: plain write; session transaction ended by commit/abort/end-session; raw Begin + Commit with a failing store; write with a context cancelled concurrently; write transaction whose callback panics; callback returning an error; engine shutdown. Quick: every kind against a plain writer, pre-emption bound 1; thorough: every kind against a plain writer and against shutdown with bound 1, and against a plain writer with bound 2; a kind-7 actor uses one session from two goroutines (start vs end)",
			"after all actors finished a probe write must succeed without waiting (or return the closed error after shutdown); any deadlock, escaped panic (semaphore over-release) or blocked shutdown on any schedule is a violation",
			"shutdown harness: one holder of the writer slot, one blocked Begin, one Close, every interleaving within the pre-emption bound; promptness is modelled as: no one-shot timeout had to expire (timers fire only when every goroutine is blocked)",
			"outside: 3-4 arbitrary actors, wall-clock latency, goroutine leaks inside tomb/context"},
	},
	{
		Property: "C04",
		Harnesses: []Harness{
			{Dir: ".", Func: "H_C04_inc", Quick: P{"actors": 2, "preempt": 1, "fixedclock": 1}, Thorough: P{"actors": 2, "preempt": 2, "fixedclock": 1}, Conc: true, ModelOnly: true},
			{Dir: ".", Func: "H_C04_shared", Quick: P{"preempt": 2, "fixedclock": 1}, Thorough: P{"preempt": 3, "fixedclock": 1}, Conc: true, ModelOnly: true, Note: "two goroutines writing through one session transaction"},
		},
		Assumptions: schedAssumptions,
		Bounds: []string{"2 actors on one counter document with a symbolic initial value: single $inc update, session transaction read-then-replace(read+1), or reader; every interleaving at synchronisation granularity within the pre-emption bound",
			"asserted: final value = initial + successful increments (no lost update), exactly one change event per committed write, every read value explained by a committed prefix",
			"outside: 3+ actors, insert/delete mixes, real-time order beyond what the counter shows"},
	},
	{
		Property: "C09",
		Harnesses: []Harness{
			{Dir: ".", Func: "H_C09_seq", Quick: P{"maxevents": 3, "fixedclock": 1}, Thorough: P{"maxevents": 3, "fixedclock": 1}},
			{Dir: ".", Func: "H_C09_lost", Quick: P{"fixedclock": 1}, Thorough: P{"fixedclock": 1}},
			{Dir: ".", Func: "H_C09_trim", Quick: P{"maxevents": 2, "fixedclock": 1}, Thorough: P{"maxevents": 4, "fixedclock": 1}, Note: "retention trims a prefix while a stream is positioned anywhere in the log"},
			{Dir: ".", Func: "H_C09_conc", Quick: P{"maxwrites": 1, "preempt": 2, "fixedclock": 1}, Thorough: P{"maxwrites": 1, "preempt": 2, "fixedclock": 1}, Conc: true, ModelOnly: true},
		},
		Assumptions: schedAssumptions,
		Bounds: []string{"sequential: <= maxevents committed events (inserts and collection drops over 2 databases x 2 collections), stream scope client/database/collection, start position at any event given as resumeAfter token, startAfter token or startAt cluster time (incl. a time after the last event), or before everything (start time 0); expected sequence = scope-filtered suffix, invalidate after a drop of the watched namespace; lost position after retention removed the stream's position",
			"concurrent: one consumer blocked in Next, one writer committing 1..maxwrites events then optionally closing the stream or cancelling the consumer's context; every interleaving within the pre-emption bound; a consumer left blocked with an undelivered event shows up as deadlock",
			"outside: stream pipelines, wall-clock latency"},
	},
	{
		Property: "C05",
		Harnesses: []Harness{
			{Dir: "dbkit", Func: "H_C05_atomic", Quick: P{}, Thorough: P{}, ModelOnly: true},
			{Dir: "dbkit", Func: "H_C05_stale", Quick: P{}, Thorough: P{}, ModelOnly: true},
			{Dir: ".", Func: "H_C05_engine", Quick: P{"fixedclock": 1}, Thorough: P{}, Note: "engine clause: a failing store"},
		},
		Assumptions: []string{"the file-system model of engine/fs.go (DESIGN.md 3.6) is the trusted part: POSIX-style semantics where un-fsynced file data and directory entries may or may not survive a power loss, torn content possible for unsynced data, rename atomic in the volatile view; the real kernel/file system is not exercised",
			"os.Remove/OpenFile/Close/Sync/Rename/Open and io.Copy are redirected to the model; every statement of dbkit.AtomicWriteFile is executed from its real SSA",
			"counterexamples are with respect to the model and are not replayed natively (a process cannot be made to lose power in the sandbox)"},
		Bounds: []string{"one AtomicWriteFile call from an arbitrary prior disk state (target present or not, stale temporary file present or not); crash before any of the (<= 10) file-system calls or in the middle of the write; at most one injected failing call per run; every post-crash choice the model permits",
			"outside: several commits in sequence (each starts from 'target = last committed image' by the one-step argument), the codec (bson.Marshal of the image), FileStore.Load decoding"},
	},
	{
		Property: "C15",
		Harnesses: append(stepFamily(1, []int{opInsertMany, opBulk, opCreateIndex, opDropIndex}),
			Harness{Dir: ".", Func: "H_C06_roundtrip", Quick: P{"maxdocs": 1, "tags": stQuickTags, "ctags": TInt32}, Thorough: P{"maxdocs": 1, "tags": stQuickTags | TDouble | TBool, "ctags": TInt32}, Note: "reload: rebuilt indexes are coherent"},
			lemClone),
		Assumptions: append([]string{"inductive step: the pre-state is a catalog built through the real API from a symbolic document list and index configuration (DESIGN.md 3.4); closure under histories of any length is the written induction argument, not a solver fact"}, commonAssumptions...),
		Bounds:      stBounds,
	},
	{
		Property:    "C07",
		Harnesses:   append(stepFamily(2|1, []int{opBulk, opInsertMany, opCreateIndex}), lemClone),
		Assumptions: append([]string{"inductive step from the canonical state (DESIGN.md 3.4); the pre-state is assumed duplicate-free and the same predicate is asserted of every post-state"}, commonAssumptions...),
		Bounds:      stBounds,
	},
	{
		Property:    "C02",
		Harnesses:   append(stepFamily(4|1, []int{opInsertMany, opBulk, opCreateIndex, opDropIndex}), lemClone, lemCloneFresh),
		Assumptions: append([]string{"inductive step from the canonical state (DESIGN.md 3.4); freeze monitor: every heap slot, map and btree node reachable from the pre-call catalog is marked and any store into it is a violation"}, commonAssumptions...),
		Bounds:      stBounds,
	},
	{
		Property: "C08",
		Harnesses: append(stepFamily(8, []int{opBulk}),
			Harness{Dir: ".", Func: "H_C08_clean", Quick: P{"maxevents": 2}, Thorough: P{"maxevents": 3}, ClockModel: true, Note: "symbolic clock: counterexamples are instants of the clock model, the wall clock cannot be steered natively"},
			lemClone),
		Assumptions: append([]string{"clock model: time.Now returns arbitrary non-decreasing instants between 2001 and 2100 (so the uint32 age arithmetic of Clean cannot wrap); bsonkit.Now runs from its real SSA on top of it"}, commonAssumptions...),
		Bounds:      append([]string{"retention: oplog of <= maxevents events with symbolic timestamps, min/max size in 0..4, min age in {0,1s,10s,1h}, max age in {1s,10s,1h}; the clock does not tick during the call; at the exact boundary second of the maximum age either outcome is accepted", "update events: updatedFields/removedFields faithfulness is covered only through the full-document replay (field-level diff is outside this check)"}, stBounds...),
	},
	{
		Property: "C03",
		Harnesses: append(stepFamily(16, []int{opInsertMany, opBulk, opCreateIndex, opDropIndex, opDrop, opClean, opExpire}),
			Harness{Dir: ".", Func: "H_STEP", Quick: P{"prop": 16, "ops": 2, "maxdocs": 1, "index": 0, "useb": 0, "tags": TInt32 | TString, "ctags": TInt32}, Thorough: P{"prop": 16, "ops": 2, "maxdocs": 1, "index": 0, "tags": TInt32 | TString, "ctags": TInt32}, Note: "two consecutive writes while a reader holds the first snapshot"},
			Harness{Dir: ".", Func: "H_C05_engine", Quick: P{"fixedclock": 1}, Thorough: P{}, Note: "a commit that cannot be persisted never becomes visible"},
			Harness{Dir: ".", Func: "H_C03_session", Quick: P{"fixedclock": 1}, Thorough: P{}, Note: "atomic visibility: a second client sees nothing until commit and everything after it; abort/end leave no trace; the transaction sees its own writes"},
			lemClone, lemCloneFresh),
		Assumptions: append([]string{"immutability is decided by the freeze monitor on the engine's heap model (slice backing arrays, maps, the real btree nodes): a store into anything reachable from an earlier catalog is a violation on any path; atomic visibility of session transactions (commit/abort) is covered by the engine-level harnesses listed here, interleavings by C04"}, commonAssumptions...),
		Bounds:      stBounds,
	},
	{
		Property: "C19",
		Harnesses: []Harness{
			{Dir: ".", Func: "H_C19_expire", Quick: P{"maxdocs": 2, "fixedclock": 1}, Thorough: P{"maxdocs": 2, "fixedclock": 1}, ClockModel: true, Note: "the clock stands still at one arbitrary instant"},
			{Dir: ".", Func: "H_C19_expire", Quick: P{"maxdocs": 1, "two": 1, "fixedclock": 1}, Thorough: P{"maxdocs": 1, "two": 1, "fixedclock": 1}, ClockModel: true, Note: "two TTL indexes (t and u) with independent intervals on one collection"},
			lemClone,
		},
		Assumptions: append([]string{"clock model: the registered runs let the clock stand still at ONE arbitrary instant (fixedclock); a run with arbitrary non-decreasing instants between the writes and the pass (bracketing: older than t0-expiry must go, not older than t1-expiry must stay) left solver unknowns on the millisecond arithmetic and is not registered: a second roll-over during the pass is outside the claim"}, commonAssumptions...),
		Bounds:      []string{"one collection with 0-1 TTL index on t (expiry 1ns as mapped from expireAfterSeconds 0, 1s, 1h), optionally a second TTL index on u (1s or 1h; u a date or int32), next to an optional non-TTL index, <= maxdocs documents whose t is a date, int32, int64, string, null, an array (<=2) of dates/int32, or missing; a second collection without TTL index; millisecond granularity"},
	},
	{
		Property: "C06",
		Harnesses: []Harness{
			{Dir: ".", Func: "H_C06_roundtrip", Quick: P{"maxdocs": 1, "tags": stQuickTags, "ctags": TInt32}, Thorough: P{"maxdocs": 1, "tags": stQuickTags | TDouble | TBool, "ctags": TInt32}},
			{Dir: ".", Func: "H_C06_commit", Quick: P{"maxwrites": 2}, Thorough: P{"maxwrites": 3}, ClockModel: true, Note: "what Commit persists is what it publishes, also when retention trims the change log"},
			lemClone,
		},
		Assumptions: append([]string{"the mongo-driver BSON codec (bson.Marshal/Unmarshal of the File struct) is NOT encoded: value-level fidelity of the codec (int32 vs int64, NaN, -0, binary subtypes) is outside this check; the claim covers lungo's own BuildFile/BuildCatalog/index rebuild logic only"}, commonAssumptions...),
		Bounds:      stBounds,
	},
	{
		Property: "C13",
		Harnesses: []Harness{
			{Dir: "mongokit", Func: "H_C13_find", Quick: P{"unstablesort": 1, "maxdocs": 2, "tags": TInt32 | TString}, Thorough: P{"unstablesort": 1, "maxdocs": 2, "tags": TNull | TInt32 | TString}},
			{Dir: "mongokit", Func: "H_C13_write", Quick: P{"unstablesort": 1, "maxdocs": 2, "tags": TInt32 | TString}, Thorough: P{"unstablesort": 1, "maxdocs": 2, "tags": TInt32 | TString}},
			{Dir: "mongokit", Func: "H_C13_distinct", Quick: P{"unstablesort": 1, "maxdocs": 2, "useb": 0, "symid": 1}, Thorough: P{"unstablesort": 1, "maxdocs": 2, "useb": 1, "symid": 1}},
		},
		Assumptions: commonAssumptions,
		Bounds: []string{"collection of <= maxdocs documents {_id: i, a?: X, b?: Y} built through the real Insert; X: null/int32/double/string or an array (<=2) of null/int32/string; Y: int32/string",
			"sort specification: none, one key or two keys over {a,b} in either order with symbolic directions; filter: none or {b: {$gte: c}}; skip and limit: every non-negative int (64 bit)",
			"oracle: stable insertion sort with a comparator written from the manual (arrays rank by min ascending / max descending), window in unbounded arithmetic; compares document identities",
			"the value domain of a,b per run is the harness parameter tags (quick and thorough: int32/string, thorough find adds null); the full domain listed above is what the harness supports, larger tag sets did not finish within the time budget of a registered tier",
			"sort.Slice is modelled by its contract (unstablesort=1): after sorting, one adjacent pair of equal elements may be swapped; a counterexample that needs the swap is reported as found in the contract model because the current Go runtime happens to sort short slices stably (sort.SliceStable is modelled as stable)",
			"outside: Decimal128; negative limit; more than 2 documents in find/write (3 in distinct)"},
	},
	{
		Property: "C11",
		Harnesses: []Harness{
			{Dir: "mongokit", Func: "H_C11_inc", Quick: P{}, Thorough: P{}},
			{Dir: "mongokit", Func: "H_C11_mul", Quick: P{}, Thorough: P{}},
			{Dir: "mongokit", Func: "H_C11_each", Quick: P{}, Thorough: P{}},
			{Dir: "mongokit", Func: "H_C11_ref", Quick: P{"ddepth": 1, "tags": TNull | TInt32 | TString | TArray}, Thorough: P{"ddepth": 1}},
			{Dir: "mongokit", Func: "H_C11_idem", Quick: P{"ddepth": 1, "tags": TNull | TInt32 | TString | TArray | TDoc}, Thorough: P{"ddepth": 1}},
			{Dir: "mongokit", Func: "H_C11_modified", Quick: P{"ddepth": 0, "tags": TNull | TInt32 | TDouble | TString | TArray}, Thorough: P{"ddepth": 1}},
			{Dir: "mongokit", Func: "H_C11_pushmod", Quick: P{"maxarr": 2, "maxeach": 1}, Thorough: P{"maxarr": 3, "maxeach": 2}, Note: "$push with $each/$position/$sort/$slice against the manual's semantics, full-range 64-bit modifier arguments"},
			{Dir: "mongokit", Func: "H_C11_positional", Quick: P{"maxarr": 3}, Thorough: P{"maxarr": 4}, Note: "$[] and $[id] with array filters"},
			lemClone,
		},
		Assumptions: commonAssumptions,
		Bounds: []string{"$inc: every int32/int64/double pair incl. a missing field; $mul: every pair with a double or two int32; products involving an int64 only for |operands| < 2^31 (64x64-bit symbolic multiplication is out of reach: stated bound)",
			"field operators vs reference semantics: document {a?,b?} (<=2 fields, values null/int32/double/string/array/document of int32/string), top-level target a,b,c; operands of the same domain; $pull with scalar/array operands",
			"idempotence / untouched fields: paths a,b,c,a.a,a.0,a.1,b.a; modified-count and rejected-update checks go through the real Collection.Update with the canonical-encoding stub for bson.Marshal",
			"$push modifiers: target array of <= maxarr int32 elements (or missing), $each of <= maxeach int32 elements, $position and $slice any int64, $sort 1/-1 on scalars; positional: arrays of <= maxarr int32 or {x:int32,y} elements, $set/$inc through a.$[] / a.$[i] with filter {i: {$gte: c}}",
			"outside: Decimal128, $currentDate values (stubbed clock), the first-match positional operator (a.$), $sort by sub-document keys"},
	},
	{
		Property: "C14",
		Harnesses: []Harness{
			{Dir: "mongokit", Func: "H_C14_inclexcl", Quick: P{"ddepth": 1, "ftags": TInt32 | TBool, "tags": TNull | TInt32 | TString | TArray | TDoc | TFlatArr}, Thorough: P{"ddepth": 1}},
			lemClone, lemCloneFresh,
			{Dir: "mongokit", Func: "H_C14_mix", Quick: P{"ddepth": 0}, Thorough: P{"ddepth": 1}},
			{Dir: "mongokit", Func: "H_C14_slice", Quick: P{}, Thorough: P{}},
			{Dir: "mongokit", Func: "H_C14_elem", Quick: P{}, Thorough: P{}},
		},
		Assumptions: commonAssumptions,
		Bounds: []string{"document {_id?, a?, b?}: a,b scalars (null,int32,double,string,bool), arrays (<=2) of them, or embedded documents (keys a,b, <=2 fields) of those, depth as stated; projection of 1-2 unrelated paths from {a,b,a.a,a.b,b.a} with flags of every numeric/bool spelling; _id suppression; paths that cross an array before the last segment are assumed away (outside the property's domain)",
			"$slice: arrays of length 0..3, count and [skip,limit] forms with full-range int64 (and int32) arguments, expected window computed without overflow",
			"$elemMatch: arrays of length 0..3 of int32/string/{x:..} elements, conditions {$gte:c} and {x:{$gte:c}}",
			"result order of fields is not compared (the property speaks of paths and values)"},
	},
	{
		Property: "C20",
		Harnesses: []Harness{
			{Dir: "mongokit", Func: "H_C20_match_leaf", Quick: P{"path_n": 4, "ctags": TNull | TInt32 | TString}, Thorough: P{"ctags": TNull | TInt32 | TString}},
			{Dir: "mongokit", Func: "H_C20_match_top", Quick: P{"path_n": 4, "ctags": TNull | TInt32 | TString}, Thorough: P{"ctags": TNull | TInt32 | TString}},
			{Dir: "mongokit", Func: "H_C20_match_nested", Quick: P{"ctags": TNull | TInt32 | TString}, Thorough: P{"ctags": TNull | TInt32 | TString}},
			{Dir: "mongokit", Func: "H_C20_match_num", Quick: P{"op": 4, "path_n": 2}, Thorough: P{"op": 4, "path_n": 2}, Note: "quick: $mod only"},
			{Dir: "mongokit", Func: "H_C20_apply_basic", Quick: P{"path_n": 6}, Thorough: P{"path_n": 6}},
			{Dir: "mongokit", Func: "H_C20_apply_push", Quick: P{"ctags": TNull | TInt32 | TString, "tags": TNull | TInt32 | TString | TArray | TDoc}, Thorough: P{"ctags": TNull | TInt32 | TString, "tags": TNull | TInt32 | TString | TArray | TDoc}},
			{Dir: "mongokit", Func: "H_C20_apply_spec", Quick: P{"both": 1, "ctags": TNull | TInt32 | TString, "tags": TNull | TInt32 | TString | TBinary | TArray | TDoc}, Thorough: P{"both": 1, "ctags": TNull | TInt32 | TString, "tags": TNull | TInt32 | TDouble | TString | TBinary | TArray | TDoc}},
			{Dir: "mongokit", Func: "H_C20_apply_raw", Quick: P{}, Thorough: P{}},
			{Dir: "mongokit", Func: "H_C20_apply_filters", Quick: P{}, Thorough: P{}},
			{Dir: "mongokit", Func: "H_C20_project", Quick: P{}, Thorough: P{}},
			{Dir: "mongokit", Func: "H_C20_sort", Thorough: P{"ctags": TNull | TInt32 | TString, "tags": TNull | TInt32 | TString | TArray | TDoc}},
			{Dir: "mongokit", Func: "H_C20_coll", Quick: P{"ddepth": 0, "ctags": TNull | TInt32 | TString}, Thorough: P{"ddepth": 0, "ctags": TNull | TInt32 | TString}},
			{Dir: "mongokit", Func: "H_C20_window", Quick: P{}, Thorough: P{}},
		},
		Assumptions: commonAssumptions,
		Bounds: []string{"document under operation: {} or {a: X}; operator arguments V: any supported non-decimal type at the top level (all 13 tags), nested values from ctags (default null,int32,double,string,array,document), containers of length <= 2 (3 for modifier documents), depth <= 2",
			"each run makes either X or V structurally rich and the other a scalar of any type (parameter both=1 lifts this); paths from the pool incl. empty and degenerate ones; operator names incl. unknown and empty",
			"$bits masks restricted to <= 3 set bits and $mod operands to representative magnitudes (loops over the bits of a symbolic mask and 64-bit symbolic remainders are not explorable)",
			"skip/limit: every non-negative int; negative skip is rejected by assumption (MongoDB rejects it; lungo panics on it: see DESIGN.md findings)",
			"outside: $jsonSchema, Decimal128, regex; driver-level calls are covered as far as C01/C17 harnesses reach them"},
	},
	{
		Property: "C12",
		Harnesses: []Harness{
			{Dir: "bsonkit", Func: "H_C12_antisym", Quick: P{"tags": TScalars, "depth": 0}, Thorough: P{"tags": TAll | (TNull|TInt32|TDouble|TString)<<16, "depth": 1}},
			{Dir: "bsonkit", Func: "H_C12_antisym", Quick: P{"tags": TNull | TInt32 | TString | TArray | TDoc, "depth": 1}, Thorough: P{"tags": TNull | TInt32 | TDouble | TString | TBool | TArray | TDoc, "depth": 1},
				Note: "containers: documents/arrays that differ late or in length"},
			{Dir: "bsonkit", Func: "H_C12_containers", Quick: P{"maxlen": 2}, Thorough: P{"maxlen": 3, "ctags": TNull | TInt32 | TDouble | TString | TBool}},
			{Dir: "bsonkit", Func: "H_C12_class", Quick: P{"tags": TAll, "depth": 1}, Thorough: P{"tags": TAll, "depth": 1}},
			{Dir: "bsonkit", Func: "H_C12_exact", Quick: P{}, Thorough: P{}},
			{Dir: "bsonkit", Func: "H_C12_trans", Quick: P{"tags": TNull | TNumbers | TString | TBool, "depth": 0}, Thorough: P{"tags": TNull | TNumbers | TString | TBool | TArray | (TNull|TInt32|TDouble|TString)<<16, "depth": 1}},
		},
		Assumptions: commonAssumptions,
		Bounds: []string{"scalars: every value of every supported non-decimal type (int32/int64/double full range incl. NaN, +-Inf, +-0; strings from pool {\"\",a,b}; binary length <= 2; ObjectID bytes 0 and 11 symbolic); containers: length <= 2, keys from {a,b}, nesting depth as stated per harness",
			"outside: Decimal128 (math/big code, not encodable): the known non-finite-decimal ordering defect is invisible to this check"},
	},
}
