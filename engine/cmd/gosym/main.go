// Command gosym decides the lungo properties by bounded symbolic execution of /repo's current SSA.
//
//	gosym check <property> <quick|thorough>   run every harness of a property, write evidence
//	gosym run <pkgdir> <harness> [k=v ...]    run a single harness (development)
package main

import (
	"encoding/json"
	"fmt"
	"os"
	"os/exec"
	"path/filepath"
	"regexp"
	"runtime"
	"runtime/debug"
	"runtime/pprof"
	"sort"
	"strconv"
	"strings"
	"time"

	"gosym"
)

const repo = "/repo"
const modPath = "github.com/256dpi/lungo"

var verifDir = "/verif"

func main() {
	// the interpreter allocates many short-lived values: trade memory for fewer collections
	if os.Getenv("GOGC") == "" {
		debug.SetGCPercent(100)
	}
	if d := os.Getenv("VERIF_DIR"); d != "" {
		verifDir = d
	} else if exe, err := os.Executable(); err == nil {
		// bin/gosym lives in <verif>/bin
		verifDir = filepath.Dir(filepath.Dir(exe))
	}
	if len(os.Args) < 2 {
		fmt.Fprintln(os.Stderr, "usage: gosym check <property> <tier> | gosym run <pkgdir> <harness> [k=v...]")
		os.Exit(2)
	}
	switch os.Args[1] {
	case "check":
		os.Exit(cmdCheck(os.Args[2], os.Args[3]))
	case "run":
		os.Exit(cmdRun(os.Args[2:]))
	case "replay":
		os.Exit(cmdReplay(os.Args[2], os.Args[3]))
	case "list":
		for _, c := range checks {
			fmt.Println(c.Property, len(c.Harnesses))
		}
	default:
		fmt.Fprintln(os.Stderr, "unknown command")
		os.Exit(2)
	}
}

// ---------- overlay ----------

// harnessFiles maps package dir ("." | "bsonkit" | ...) to the harness sources in /verif/harness.
func buildOverlay() (map[string][]byte, map[string]string, error) {
	ov := map[string][]byte{}
	native := map[string]string{} // virtual path -> real path (for go test -overlay)
	hdir := filepath.Join(verifDir, "harness")
	entries, err := os.ReadDir(hdir)
	if err != nil {
		return nil, nil, err
	}
	for _, e := range entries {
		if !e.IsDir() {
			continue
		}
		files, _ := filepath.Glob(filepath.Join(hdir, e.Name(), "*.go"))
		for _, f := range files {
			src, err := os.ReadFile(f)
			if err != nil {
				return nil, nil, err
			}
			var virt string
			switch e.Name() {
			case "vf":
				virt = filepath.Join(repo, "internal", "vf", filepath.Base(f))
			case "root":
				virt = filepath.Join(repo, "zz_verif_"+filepath.Base(f))
			default:
				virt = filepath.Join(repo, e.Name(), "zz_verif_"+filepath.Base(f))
			}
			ov[virt] = src
			native[virt] = f
		}
	}
	return ov, native, nil
}

func pkgPathOf(dir string) string {
	if dir == "root" || dir == "." {
		return modPath
	}
	return modPath + "/" + dir
}

func harnessDirOf(dir string) string {
	if dir == "." {
		return "root"
	}
	return dir
}

var harnessRe = regexp.MustCompile(`(?m)^func (H_[A-Za-z0-9_]+)\(\)`)

func harnessNames(dir string) []string {
	files, _ := filepath.Glob(filepath.Join(verifDir, "harness", harnessDirOf(dir), "*.go"))
	var names []string
	for _, f := range files {
		src, _ := os.ReadFile(f)
		for _, m := range harnessRe.FindAllStringSubmatch(string(src), -1) {
			names = append(names, m[1])
		}
	}
	sort.Strings(names)
	return names
}

// ---------- native replay ----------

type script struct {
	Harness string            `json:"harness"`
	Values  map[string]string `json:"values"`
	Params  map[string]int    `json:"params"`
	StrPool []string          `json:"strpool"`
	Expect  string            `json:"expect"`
}

type nativeResult struct {
	Kind string
	Msg  string
	Obs  map[string]string
}

// replayNative compiles the harnesses of one package natively against /repo (go test -overlay) and
// runs the scripts; returns one result per script.
func replayNative(dir string, scripts []script, work string) ([]nativeResult, string, error) {
	_, native, err := buildOverlay()
	if err != nil {
		return nil, "", err
	}
	pkgName := map[string]string{"root": "lungo", ".": "lungo"}[dir]
	if pkgName == "" {
		pkgName = filepath.Base(dir)
	}
	os.MkdirAll(work, 0o755)
	// test driver
	var sb strings.Builder
	fmt.Fprintf(&sb, "package %s\n\nimport (\n\t\"testing\"\n\t\"%s/internal/vf\"\n)\n\nfunc TestVerifReplay(t *testing.T) {\n\tvf.RunScripts(map[string]func(){\n", pkgName, modPath)
	for _, n := range harnessNames(dir) {
		fmt.Fprintf(&sb, "\t\t%q: %s,\n", n, n)
	}
	sb.WriteString("\t})\n}\n")
	testFile := filepath.Join(work, "replay_test.go")
	os.WriteFile(testFile, []byte(sb.String()), 0o644)
	rd := dir
	if dir == "root" {
		rd = "."
	}
	// the package's own tests are hidden for the replay build (several need a live MongoDB in init)
	if own, _ := filepath.Glob(filepath.Join(repo, rd, "*_test.go")); own != nil {
		for _, f := range own {
			native[f] = ""
		}
	}
	native[filepath.Join(repo, rd, "zz_verif_replay_test.go")] = testFile
	ovJSON, _ := json.Marshal(map[string]interface{}{"Replace": native})
	ovFile := filepath.Join(work, "overlay.json")
	os.WriteFile(ovFile, ovJSON, 0o644)
	scriptFile := filepath.Join(work, "scripts.json")
	sj, _ := json.Marshal(scripts)
	os.WriteFile(scriptFile, sj, 0o644)
	cmd := exec.Command("go", "test", "-vet=off", "-count=1", "-run", "^TestVerifReplay$", "-v", "-timeout", "20m", "-overlay", ovFile, "./"+rd)
	cmd.Dir = repo
	cmd.Env = append(os.Environ(), "GOFLAGS=-mod=mod", "GOPROXY=off", "VERIF_REPLAY="+scriptFile)
	out, _ := cmd.CombinedOutput()
	res := make([]nativeResult, len(scripts))
	for i := range res {
		res[i].Kind = "missing"
		res[i].Obs = map[string]string{}
	}
	for _, line := range strings.Split(string(out), "\n") {
		line = strings.TrimSpace(line)
		if strings.HasPrefix(line, "VF-RESULT ") {
			f := strings.SplitN(line, " ", 4)
			idx, _ := strconv.Atoi(f[1])
			if idx < len(res) {
				res[idx].Kind = f[2]
				if len(f) > 3 {
					res[idx].Msg = f[3]
				}
			}
		} else if strings.HasPrefix(line, "VF-OBS ") {
			f := strings.SplitN(line, " ", 3)
			idx, _ := strconv.Atoi(f[1])
			kv := strings.SplitN(f[2], "=", 2)
			if idx < len(res) && len(kv) == 2 {
				res[idx].Obs[kv[0]] = kv[1]
			}
		}
	}
	return res, string(out), nil
}

// ---------- run one harness ----------

func cmdRun(args []string) int {
	dir, harness := args[0], args[1]
	cfg := gosym.DefaultConfig()
	opts := gosym.RunOpts{Workers: runtime.NumCPU(), Solver: "cvc5", MaxViol: 5, Witnesses: 3, Verbose: true}
	for _, kv := range args[2:] {
		p := strings.SplitN(kv, "=", 2)
		n, _ := strconv.Atoi(p[1])
		switch p[0] {
		case "workers":
			opts.Workers = n
		case "maxpaths":
			opts.MaxPaths = n
		case "solver":
			opts.Solver = p[1]
		case "mapperm":
			cfg.MapPerm = n
		case "conck":
			cfg.ConcK = n
		case "concurrent":
			cfg.Concurrent = n != 0
		case "timeout":
			cfg.TimeoutMs = n
		case "strpool":
			cfg.StrPool = strings.Split(p[1], "|")
		default:
			cfg.Params[p[0]] = n
		}
	}
	ov, _, err := buildOverlay()
	if err != nil {
		fmt.Fprintln(os.Stderr, err)
		return 2
	}
	prog, err := gosym.Load(repo, ov, []string{"./" + strings.TrimPrefix(dir, "./")})
	if err != nil {
		fmt.Fprintln(os.Stderr, err)
		return 2
	}
	fmt.Fprintf(os.Stderr, "loaded in %.1fs\n", prog.LoadS)
	if pf := os.Getenv("GOSYM_PROF"); pf != "" {
		f, _ := os.Create(pf)
		pprof.StartCPUProfile(f)
		defer pprof.StopCPUProfile()
	}
	res := prog.Run(pkgPathOf(dir), harness, cfg, opts)
	fmt.Printf("%s: paths=%d steps=%d queries=%d (unsat %d sat %d unknown %d) solver=%.1fs wall=%.1fs outcomes=%v withAssert=%d truncated=%v\n",
		res.Harness, res.Paths, res.Steps, res.Queries, res.Unsat, res.Sat, res.Unknown, res.SolverS, res.WallS, res.Outcomes, res.PathsWithAssert, res.Truncated)
	for _, v := range res.Violations {
		fmt.Printf("  candidate %s: %s\n    model=%v\n", v.Kind, v.Msg, v.Model)
	}
	for _, v := range res.Inconclusive {
		fmt.Printf("  inconclusive %s: %s\n", v.Kind, v.Msg)
	}
	if os.Getenv("SHOWFUNCS") != "" {
		for _, f := range res.FuncList("lungo") {
			fmt.Println("   ", f)
		}
	}
	// replay candidates and witnesses natively
	if len(res.Violations)+len(res.Witnesses) > 0 && os.Getenv("NOREPLAY") == "" {
		var scripts []script
		var exp []gosym.PathResult
		for _, v := range append(append([]gosym.PathResult{}, res.Violations...), res.Witnesses...) {
			scripts = append(scripts, script{Harness: harness, Values: v.Model, Params: cfg.Params, StrPool: cfg.StrPool, Expect: v.Kind})
			exp = append(exp, v)
		}
		nr, out, err := replayNative(dir, scripts, filepath.Join(verifDir, ".work", "run"))
		if err != nil {
			fmt.Println("replay error:", err)
		}
		bad := false
		for i, r := range nr {
			fmt.Printf("  native[%d] expect=%s got=%s %s obs=%v/%v\n", i, exp[i].Kind, r.Kind, trunc(r.Msg, 200), r.Obs, exp[i].Observed)
			if r.Kind == "missing" || r.Kind == "error" {
				bad = true
			}
		}
		if bad {
			fmt.Println(trunc(out, 3000))
		}
	}
	if len(res.Violations) > 0 {
		return 1
	}
	if len(res.Inconclusive) > 0 || res.Truncated {
		return 2
	}
	return 0
}

// cmdReplay re-runs stored counterexample scripts natively; exit 1 if any still fails.
func cmdReplay(prop, file string) int {
	data, err := os.ReadFile(file)
	if err != nil {
		fmt.Fprintln(os.Stderr, err)
		return 2
	}
	var scripts []script
	if err := json.Unmarshal(data, &scripts); err != nil {
		fmt.Fprintln(os.Stderr, err)
		return 2
	}
	rc := 0
	for _, s := range scripts {
		dir := ""
		for _, c := range checks {
			for _, h := range c.Harnesses {
				if h.Func == s.Harness {
					dir = h.Dir
				}
			}
		}
		if dir == "" {
			fmt.Println("unknown harness", s.Harness)
			return 2
		}
		nr, out, err := replayNative(dir, []script{s}, filepath.Join(verifDir, ".work", "replay"))
		if err != nil || len(nr) == 0 || nr[0].Kind == "missing" {
			fmt.Println("replay did not run:", err, trunc(out, 2000))
			return 2
		}
		fmt.Printf("%s: %s %s\n", s.Harness, nr[0].Kind, nr[0].Msg)
		if nr[0].Kind == "assert" || nr[0].Kind == "panic" {
			fmt.Printf("VIOLATION property=%s replay=%s\n", prop, file)
			rc = 1
		}
	}
	return rc
}

func trunc(s string, n int) string {
	if len(s) > n {
		return s[:n] + "..."
	}
	return s
}

var _ = time.Now
