package main

import (
	"crypto/sha256"
	"encoding/hex"
	"encoding/json"
	"fmt"
	"os"
	"path/filepath"
	"runtime"
	"sort"
	"strconv"
	"strings"
	"time"

	"gosym"
)

type knownFinding struct {
	Property string `json:"property"`
	Status   string `json:"status"` // "known" | "fixed"
	Harness  string `json:"harness,omitempty"`
	Site     string `json:"site,omitempty"` // substring of the violation message (file:line of the failing site)
	Input    string `json:"input,omitempty"`
	Commit   string `json:"commit,omitempty"`
	Text     string `json:"text"`
}

func loadKnown() []knownFinding {
	var k []knownFinding
	data, err := os.ReadFile(filepath.Join(verifDir, "known_findings.json"))
	if err == nil {
		json.Unmarshal(data, &k)
	}
	return k
}

func matchKnown(known []knownFinding, prop, harness, msg string) *knownFinding {
	for i := range known {
		k := &known[i]
		if k.Status != "known" || k.Property != prop {
			continue
		}
		if k.Harness != "" && k.Harness != harness {
			continue
		}
		if k.Site != "" && !strings.Contains(msg, k.Site) {
			continue
		}
		return k
	}
	return nil
}

type harnessEvidence struct {
	Harness     string         `json:"harness"`
	Params      map[string]int `json:"params"`
	Paths       int            `json:"paths"`
	Steps       int            `json:"ssa_instructions"`
	Outcomes    map[string]int `json:"outcomes"`
	PathsAssert int            `json:"paths_reaching_all_assertions"`
	Assertions  int            `json:"assertion_queries"`
	Queries     int            `json:"solver_queries"`
	Unsat       int            `json:"unsat"`
	Sat         int            `json:"sat"`
	Unknown     int            `json:"unknown"`
	SolverS     float64        `json:"solver_cpu_s"`
	WallS       float64        `json:"wall_s"`
	WitnessOK   int            `json:"witnesses_replayed_natively_ok"`
	Note        string         `json:"note,omitempty"`
}

func fileHash(path string) string {
	data, err := os.ReadFile(path)
	if err != nil {
		return ""
	}
	h := sha256.Sum256(data)
	return hex.EncodeToString(h[:6])
}

func cmdCheck(prop, tier string) int {
	t0 := time.Now()
	seed, _ := strconv.Atoi(os.Getenv("VERIF_SEED"))
	var chk *Check
	for i := range checks {
		if checks[i].Property == prop {
			chk = &checks[i]
		}
	}
	if chk == nil {
		fmt.Fprintln(os.Stderr, "unknown property", prop)
		return 2
	}
	evPath := filepath.Join(verifDir, "evidence", prop+".json")
	os.MkdirAll(filepath.Dir(evPath), 0o755)
	os.Remove(evPath)
	known := loadKnown()

	// which harnesses
	type sel struct {
		h      Harness
		params map[string]int
	}
	var sels []sel
	dirs := map[string]bool{}
	for _, h := range chk.Harnesses {
		p := h.Thorough
		if tier == "quick" {
			p = h.Quick
		}
		if p == nil {
			continue
		}
		sels = append(sels, sel{h, p})
		dirs[h.Dir] = true
	}
	ov, _, err := buildOverlay()
	if err != nil {
		fmt.Fprintln(os.Stderr, err)
		return 2
	}
	var patterns []string
	for d := range dirs {
		patterns = append(patterns, "./"+strings.TrimPrefix(d, "./"))
	}
	sort.Strings(patterns)
	prog, err := gosym.Load(repo, ov, patterns)
	if err != nil {
		fmt.Println("INCONCLUSIVE property=" + prop + " /repo does not load: " + trunc(err.Error(), 2000))
		return 2
	}
	fmt.Fprintf(os.Stderr, "[%s %s] loaded %v in %.1fs\n", prop, tier, patterns, prog.LoadS)

	type cand struct {
		dir, harness string
		params       map[string]int
		strpool      []string
		pr           gosym.PathResult
		witness      bool
		modelOnly    bool
		clockModel   bool
	}
	var cands []cand
	var hev []harnessEvidence
	funcs := map[string]int{}
	inconclusive := []string{}
	totalPaths, totalSteps, totalQueries, totalUnsat, totalSat, totalUnknown := 0, 0, 0, 0, 0, 0
	solverS := 0.0
	var samples []interface{}
	nWit := 3
	if tier == "thorough" {
		nWit = 8
	}
	for _, s := range sels {
		cfg := gosym.DefaultConfig()
		for k, v := range s.params {
			cfg.Params[k] = v
		}
		cfg.MapPerm = s.h.MapPerm
		if v, ok := s.params["mapperm"]; ok {
			cfg.MapPerm = v
		}
		if v, ok := s.params["conck"]; ok {
			cfg.ConcK = v
		}
		if v, ok := s.params["maxsteps"]; ok {
			cfg.MaxSteps = v
		}
		cfg.Concurrent = s.h.Conc
		if s.h.StrPool != nil {
			cfg.StrPool = s.h.StrPool
		}
		opts := gosym.RunOpts{Workers: runtime.NumCPU(), Solver: "cvc5", MaxViol: 6, Witnesses: nWit, Verbose: os.Getenv("VERIF_VERBOSE") != ""}
		if v, ok := s.params["maxpaths"]; ok {
			opts.MaxPaths = v
		}
		if c, err := strconv.Atoi(os.Getenv("GOSYM_HARNESS_CAP")); err == nil && c > 0 {
			// measurement aid: cap the exploration time per harness (a capped run is inconclusive)
			opts.Deadline = time.Now().Add(time.Duration(c) * time.Second)
		}
		res := prog.Run(pkgPathOf(s.h.Dir), s.h.Func, cfg, opts)
		fmt.Fprintf(os.Stderr, "[%s %s] %s: paths=%d outcomes=%v queries=%d wall=%.1fs\n", prop, tier, s.h.Func, res.Paths, res.Outcomes, res.Queries, res.WallS)
		he := harnessEvidence{Harness: s.h.Dir + "." + s.h.Func, Params: s.params, Paths: res.Paths, Steps: res.Steps, Outcomes: res.Outcomes,
			PathsAssert: res.PathsWithAssert, Assertions: res.AssertsTotal, Queries: res.Queries, Unsat: res.Unsat, Sat: res.Sat, Unknown: res.Unknown,
			SolverS: res.SolverS, WallS: res.WallS, Note: s.h.Note}
		hev = append(hev, he)
		totalPaths += res.Paths
		totalSteps += res.Steps
		totalQueries += res.Queries
		totalUnsat += res.Unsat
		totalSat += res.Sat
		totalUnknown += res.Unknown
		solverS += res.SolverS
		for f, n := range res.Funcs {
			funcs[f] += n
		}
		for _, v := range res.Violations {
			cands = append(cands, cand{s.h.Dir, s.h.Func, s.params, cfg.StrPool, v, false, s.h.ModelOnly, s.h.ClockModel})
		}
		for _, w := range res.Witnesses {
			cands = append(cands, cand{s.h.Dir, s.h.Func, s.params, cfg.StrPool, w, true, s.h.ModelOnly, s.h.ClockModel})
		}
		for _, ic := range res.Inconclusive {
			inconclusive = append(inconclusive, s.h.Func+": "+ic.Kind+": "+trunc(ic.Msg, 400))
		}
		if res.Truncated {
			inconclusive = append(inconclusive, s.h.Func+": exploration truncated (path or time budget)")
		}
		if res.PathsWithAssert == 0 && len(res.Violations) == 0 {
			inconclusive = append(inconclusive, s.h.Func+": vacuous: no path reached an assertion")
		}
	}

	// native replay, one go test per package dir
	byDir := map[string][]int{}
	for i, c := range cands {
		if c.modelOnly {
			continue // environment-model harness: there is no native counterpart of the model (see Harness.ModelOnly)
		}
		byDir[c.dir] = append(byDir[c.dir], i)
	}
	native := make([]nativeResult, len(cands))
	for dir, idxs := range byDir {
		var scripts []script
		for _, i := range idxs {
			c := cands[i]
			scripts = append(scripts, script{Harness: c.harness, Values: c.pr.Model, Params: c.params, StrPool: c.strpool, Expect: c.pr.Kind})
		}
		work := filepath.Join(verifDir, ".work", prop+"-"+tier+"-"+strings.ReplaceAll(dir, "/", "_"))
		nr, out, err := replayNative(dir, scripts, work)
		if err != nil {
			inconclusive = append(inconclusive, "native replay failed: "+err.Error())
			continue
		}
		missing := false
		for k, i := range idxs {
			native[i] = nr[k]
			if nr[k].Kind == "missing" || nr[k].Kind == "error" {
				missing = true
			}
		}
		if missing {
			inconclusive = append(inconclusive, "native replay did not run for "+dir+": "+trunc(out, 1500))
		}
	}

	violations := 0
	knownHits := map[string]bool{}
	witnessOK := 0
	os.MkdirAll(filepath.Join(verifDir, "replays", prop), 0o755)
	var violationLines []string
	for i, c := range cands {
		n := native[i]
		if c.modelOnly {
			if c.witness {
				if len(samples) < 6 {
					samples = append(samples, map[string]interface{}{"harness": c.harness, "path_decisions": c.pr.Prefix, "input_model": c.pr.Model, "observed": c.pr.Observed, "native_replay": "not applicable (environment model)"})
				}
				continue
			}
			// a counterexample of an environment-model harness is a counterexample with respect to the
			// stated model; it is confirmed by re-executing the same decision prefix in the engine
			n = nativeResult{Kind: "assert", Msg: "confirmed against the environment model (file-system / scheduler), not natively"}
			if c.pr.Kind == "panic" {
				n.Kind = "panic"
			}
		}
		if c.witness {
			ok := n.Kind == "pass"
			for tag, v := range c.pr.Observed {
				if n.Obs[tag] != v && !c.clockModel {
					ok = false
				}
			}
			if ok {
				witnessOK++
				for hi := range hev {
					if hev[hi].Harness == c.dir+"."+c.harness {
						hev[hi].WitnessOK++
					}
				}
				if len(samples) < 6 {
					samples = append(samples, map[string]interface{}{"harness": c.harness, "path_decisions": c.pr.Prefix, "input_model": c.pr.Model, "observed": c.pr.Observed, "native_replay": "agrees"})
				}
			} else if n.Kind != "missing" {
				inconclusive = append(inconclusive, fmt.Sprintf("ENCODING-MISMATCH %s: witness path replays natively as %s %s; engine observed %v native %v", c.harness, n.Kind, trunc(n.Msg, 200), c.pr.Observed, n.Obs))
			}
			continue
		}
		// violation candidate
		reproduced := n.Kind == "assert" || n.Kind == "panic"
		if c.pr.Kind == "deadlock" {
			reproduced = c.modelOnly
		}
		if !reproduced && c.clockModel {
			// depends on the instants the clock model returned: cannot be steered natively
			reproduced = true
			n.Msg = "found in the clock model; the native run (wall clock) did not take this path: " + n.Kind + " " + n.Msg
		}
		if !reproduced && usesUnstableSort(c.pr.Model) {
			// the path swaps two equal elements after a sort.Slice: allowed by the library contract, but the
			// current runtime sorts short slices stably, so the native run cannot take it
			reproduced = true
			n.Msg = "found in the contract model of sort.Slice (the order of equal elements is unspecified); the native run did not take this path: " + n.Kind + " " + n.Msg
		}
		if !reproduced {
			inconclusive = append(inconclusive, fmt.Sprintf("ENCODING-MISMATCH %s: candidate %s (%s) did not reproduce natively (native: %s %s)", c.harness, c.pr.Kind, trunc(c.pr.Msg, 300), n.Kind, trunc(n.Msg, 200)))
			continue
		}
		full := c.pr.Msg + " | native: " + n.Msg
		if k := matchKnown(known, prop, c.harness, full); k != nil {
			key := k.Harness + "|" + k.Site
			if !knownHits[key] {
				knownHits[key] = true
				fmt.Printf("KNOWN-FINDING: property=%s %s\n", prop, k.Text)
			}
			continue
		}
		violations++
		rp := filepath.Join(verifDir, "replays", prop, fmt.Sprintf("%d.json", violations))
		sj, _ := json.MarshalIndent([]script{{Harness: c.harness, Values: c.pr.Model, Params: c.params, StrPool: c.strpool, Expect: c.pr.Kind}}, "", " ")
		os.WriteFile(rp, sj, 0o644)
		violationLines = append(violationLines, fmt.Sprintf("VIOLATION property=%s replay=%s", prop, rp))
		fmt.Printf("  violation in %s: %s\n    native: %s %s\n", c.harness, trunc(c.pr.Msg, 500), n.Kind, trunc(n.Msg, 300))
		if len(samples) < 8 {
			samples = append(samples, map[string]interface{}{"harness": c.harness, "violation": c.pr.Msg, "input_model": c.pr.Model, "native_replay": n.Kind + " " + n.Msg})
		}
	}

	// functions encoded
	var fl []string
	for f, n := range funcs {
		if strings.Contains(f, "256dpi/lungo") && !strings.Contains(f, "internal/vf") && !strings.Contains(f, ".H_") {
			fl = append(fl, fmt.Sprintf("%s x%d", f, n))
		}
	}
	sort.Strings(fl)
	if len(samples) == 0 {
		samples = append(samples, map[string]interface{}{"note": "no witness could be extracted"})
	}
	ev := map[string]interface{}{
		"property_id": prop,
		"tier":        tier,
		"seed":        seed,
		"level":       "model_checking",
		"coverage": map[string]interface{}{
			"states":                        totalPaths,
			"transitions":                   totalSteps,
			"traces_validated_against_impl": witnessOK,
			"samples":                       samples,
			"explanation":                   "states = symbolic execution paths of the real SSA explored to completion; transitions = SSA instructions executed symbolically; traces_validated = solver models of complete paths replayed natively (go test -overlay) with identical observations",
			"harnesses":                     hev,
			"functions_encoded":             fl,
			"solver":                        "cvc5 1.0.3 (SMT-LIB2, QF bit-vectors + IEEE floats), one incremental process per worker",
			"solver_queries":                totalQueries,
			"queries_unsat":                 totalUnsat,
			"queries_sat":                   totalSat,
			"queries_unknown":               totalUnknown,
			"solver_cpu_s":                  solverS,
			"ssa_load_s":                    prog.LoadS,
			"inconclusive":                  inconclusive,
			"bounds":                        chkBounds(chk, tier),
			"exhaustive":                    len(inconclusive) == 0,
			"repo_sources":                  sourceHashes(fl),
		},
		"assumptions": chk.Assumptions,
		"wall_s":      time.Since(t0).Seconds(),
		"violations":  violations,
	}
	data, _ := json.MarshalIndent(ev, "", " ")
	os.WriteFile(evPath, data, 0o644)

	for _, l := range violationLines {
		fmt.Println(l)
	}
	if violations > 0 {
		return 1
	}
	if len(inconclusive) > 0 {
		for _, s := range inconclusive {
			fmt.Println("INCONCLUSIVE property=" + prop + " " + s)
		}
		return 2
	}
	fmt.Printf("OK property=%s tier=%s paths=%d queries=%d (unsat %d) witnesses=%d wall=%.0fs\n", prop, tier, totalPaths, totalQueries, totalUnsat, witnessOK, time.Since(t0).Seconds())
	return 0
}

func chkBounds(c *Check, tier string) []string {
	var r []string
	for _, h := range c.Harnesses {
		p := h.Thorough
		if tier == "quick" {
			p = h.Quick
		}
		if p == nil {
			continue
		}
		r = append(r, fmt.Sprintf("%s: %v %s", h.Func, p, h.Note))
	}
	r = append(r, c.Bounds...)
	return r
}

func sourceHashes(fl []string) map[string]string {
	files := map[string]string{}
	for _, d := range []string{"", "bsonkit", "mongokit", "dbkit"} {
		fs, _ := filepath.Glob(filepath.Join(repo, d, "*.go"))
		for _, f := range fs {
			if strings.HasSuffix(f, "_test.go") {
				continue
			}
			rel, _ := filepath.Rel(repo, f)
			files[rel] = fileHash(f)
		}
	}
	return files
}

// usesUnstableSort: the counterexample took a tie swap of the sort.Slice contract model
func usesUnstableSort(model map[string]string) bool {
	for k, v := range model {
		if strings.HasPrefix(k, "$unstable") && v != "0" && v != "" {
			return true
		}
	}
	return false
}
