package gosym

import (
	"fmt"
	"go/token"
	"go/types"
	"strings"

	"golang.org/x/tools/go/ssa"
)

// envModel holds the state of the environment models (clock, file system) of one path.
type envModel struct {
	nowSeq   int
	lastNow  *Term
	lastSec  *Term
	lastFrac *Term
	fs       *fsModel
	unixMemo map[string]*Term
}

const (
	minClockMs = 978307200000  // 2001-01-01: so that uint32 age arithmetic in Clean cannot wrap (stated assumption)
	maxClockMs = 4102444800000 // 2100-01-01
)

// time.Time is modelled as Struct{wall=0, ext=milliseconds since epoch, loc=nil}.
func (in *Interp) timeCall(fr *frame, fn *ssa.Function, full string, args []Value, pos token.Pos) (Value, bool) {
	switch full {
	case "time.Now":
		// an instant is (whole seconds, milliseconds within the second): Unix() is the seconds variable
		// itself, so timestamp arithmetic needs no division or multiplication
		if in.cfg.Params["fixedclock"] == 1 && in.env.lastNow != nil {
			// harnesses that are not about time: the clock stands still at one arbitrary instant
			return Struct{in.env.lastSec, in.env.lastNow, NilPtr{}}, true
		}
		in.env.nowSeq++
		sec := in.fresh(fmt.Sprintf("$sec%d", in.env.nowSeq), SBV, 64)
		frac := in.fresh(fmt.Sprintf("$ms%d", in.env.nowSeq), SBV, 64)
		in.assume(BVCmp("ge", true, sec, BVc(64, minClockMs/1000)))
		in.assume(BVCmp("le", true, sec, BVc(64, maxClockMs/1000)))
		in.assume(BVCmp("ge", true, frac, BVc(64, 0)))
		in.assume(BVCmp("lt", true, frac, BVc(64, 1000)))
		if in.env.lastNow != nil {
			in.assume(Or(BVCmp("gt", true, sec, in.env.lastSec), And(Eq(sec, in.env.lastSec), BVCmp("ge", true, frac, in.env.lastFrac))))
		}
		t := BVBin("add", true, BVBin("mul", true, sec, BVc(64, 1000)), frac)
		in.env.lastNow, in.env.lastSec, in.env.lastFrac = t, sec, frac
		return Struct{sec, t, NilPtr{}}, true
	case "(time.Time).UTC", "(time.Time).Local", "(time.Time).Round", "(time.Time).Truncate":
		return args[0], true
	case "(time.Time).Unix":
		if sec := args[0].(Struct)[0].(*Term); !sec.Const {
			return sec, true
		}
		ms := args[0].(Struct)[1].(*Term)
		if ms.Const {
			v := sx(64, ms.U)
			q := v / 1000
			if v%1000 < 0 {
				q--
			}
			return BVc(64, uint64(q)), true
		}
		if in.env.unixMemo == nil {
			in.env.unixMemo = map[string]*Term{}
		}
		if q, ok := in.env.unixMemo[ms.S]; ok {
			return q, true
		}
		in.env.nowSeq++
		q := in.fresh(fmt.Sprintf("$unix%d", in.env.nowSeq), SBV, 64)
		in.env.unixMemo[ms.S] = q
		in.assume(BVCmp("ge", true, q, BVc(64, 0)))
		in.assume(BVCmp("le", true, q, BVc(64, maxClockMs/1000+1)))
		q1000 := BVBin("mul", true, q, BVc(64, 1000))
		in.assume(BVCmp("le", true, q1000, ms))
		in.assume(BVCmp("lt", true, ms, BVBin("add", true, q1000, BVc(64, 1000))))
		return q, true
	case "(time.Time).UnixMilli":
		return args[0].(Struct)[1], true
	case "(time.Time).Add":
		ms := args[0].(Struct)[1].(*Term)
		d := args[1].(*Term)
		if !d.Const {
			in.fail("unsupported", "time.Add with a symbolic duration")
		}
		dm := sx(64, d.U) / 1000000
		return Struct{BVc(64, 0), BVBin("add", true, ms, BVc(64, uint64(dm))), NilPtr{}}, true
	case "(time.Time).Before":
		return BVCmp("lt", true, args[0].(Struct)[1].(*Term), args[1].(Struct)[1].(*Term)), true
	case "(time.Time).After":
		return BVCmp("gt", true, args[0].(Struct)[1].(*Term), args[1].(Struct)[1].(*Term)), true
	case "(time.Time).IsZero":
		return Eq(args[0].(Struct)[1].(*Term), BVc(64, 0)), true
	case "time.NewTimer", "time.NewTicker":
		c := &ChanV{cap: 1, elem: fn.Signature.Results().At(0).Type(), timer: &timerState{ticker: full == "time.NewTicker"}}
		in.sched.timers = append(in.sched.timers, c)
		// *Timer{C <-chan Time, ...}: build a struct of the real shape with C in field 0
		st := zero(fn.Signature.Results().At(0).Type().(*types.Pointer).Elem()).(Struct)
		st[0] = c
		var v Value = st
		return &v, true
	case "(*time.Timer).Stop", "(*time.Ticker).Stop":
		p := args[0].(*Value)
		c := (*p).(Struct)[0].(*ChanV)
		was := !c.timer.fired && !c.timer.stopped
		c.timer.stopped = true
		if full == "(*time.Timer).Stop" {
			return Boolc(was), true
		}
		return nil, true
	case "time.After":
		c := &ChanV{cap: 1, elem: fn.Signature.Results().At(0).Type(), timer: &timerState{}}
		in.sched.timers = append(in.sched.timers, c)
		return c, true
	case "time.Sleep":
		return nil, true
	case "time.Since":
		in.fail("unsupported", "time.Since")
	case "(time.Duration).String", "(time.Time).String":
		return StrV("<time>"), true
	}
	if strings.HasPrefix(full, "(time.Duration).") {
		return nil, false
	}
	in.fail("unsupported", "time: "+full)
	return nil, true
}

// ---------- codec stubs ----------

// deepCopy is the contract of the BSON codec round trip (bsonkit.Transform/Decode): a value of the
// same structure in fresh memory. The fidelity of the real reflection-driven codec is outside
// every claim.
func (in *Interp) deepCopy(v Value) Value {
	switch x := v.(type) {
	case *Lazy:
		return in.lazyCopy(x, nil)
	case *Iface:
		if x.T == nil {
			return x
		}
		return &Iface{T: x.T, V: in.deepCopy(x.V)}
	case Struct:
		c := make(Struct, len(x))
		for i := range x {
			c[i] = in.deepCopy(x[i])
		}
		return c
	case Array:
		c := make(Array, len(x))
		for i := range x {
			c[i] = in.deepCopy(x[i])
		}
		return c
	case SliceV:
		if x.Nil {
			return x
		}
		d := make([]Value, len(x.D))
		for i := range x.D {
			d[i] = in.deepCopy(x.D[i])
		}
		return SliceV{D: d}
	case *Value:
		var c Value = in.deepCopy(*x)
		return &c
	}
	return v
}

// deepForce forces every lazy value reachable from v (used where a copy must not share laziness).
func (in *Interp) deepForce(v Value) Value {
	switch x := v.(type) {
	case *Lazy:
		return in.deepForce(in.force(x))
	case *Iface:
		if x.T != nil {
			in.deepForce(x.V)
		}
	case Struct:
		for i := range x {
			x[i] = in.deepForce(x[i])
		}
	case Array:
		for i := range x {
			in.deepForce(x[i])
		}
	case SliceV:
		for i := range x.D {
			x.D[i] = in.deepForce(x.D[i])
		}
	case *Value:
		*x = in.deepForce(*x)
	}
	return v
}

func (in *Interp) bsonCall(fr *frame, fn *ssa.Function, full string, args []Value, pos token.Pos) (Value, bool) {
	switch fn.Name() {
	case "Marshal":
		// canonical-encoding stub: an opaque byte string that bytes.Equal compares structurally
		return Tuple{SliceV{D: []Value{&Opaque{Kind: "bson", V: args[0]}}}, &Iface{}}, true
	}
	return nil, false
}

// opaqueEqual compares two stubbed encodings: equal bytes iff same keys in the same order, same
// dynamic types, identical payloads (doubles by bit pattern, NaN == NaN).
func (in *Interp) opaqueEqual(a, b Value, pos token.Pos) (*Term, bool) {
	sa, ok1 := a.(SliceV)
	sb, ok2 := b.(SliceV)
	if !ok1 || !ok2 || len(sa.D) != 1 || len(sb.D) != 1 {
		return nil, false
	}
	oa, ok1 := sa.D[0].(*Opaque)
	ob, ok2 := sb.D[0].(*Opaque)
	if !ok1 || !ok2 {
		return nil, false
	}
	return in.structEq(oa.V, ob.V), true
}

// structEq is bit-level structural equality of two BSON values.
func (in *Interp) structEq(a, b Value) *Term {
	switch x := a.(type) {
	case *Lazy, *Iface:
		y, ok := b.(*Lazy)
		if ok {
			if xl, ok2 := a.(*Lazy); ok2 {
				if xl == y {
					return Boolc(true)
				}
				// a still-undecided value and its (clone / codec) copy: equal by the lemma that
				// cloneValue / ConvertValue preserve values, which harness H_LEM_clone checks on the
				// real code in the same run
				if lazyRoot(xl) == lazyRoot(y) && xl.Forced == nil && y.Forced == nil {
					in.reached["lemma:clone-preserves-value"] = true
					return Boolc(true)
				}
			}
		}
		fa := in.force(a)
		var fb *Iface
		switch bb := b.(type) {
		case *Lazy, *Iface:
			fb = in.force(bb)
		default:
			return Boolc(false)
		}
		if fa.T == nil || fb.T == nil {
			return Boolc(fa.T == nil && fb.T == nil)
		}
		if !types.Identical(fa.T, fb.T) {
			return Boolc(false)
		}
		return in.structEq(fa.V, fb.V)
	case *Term:
		y := b.(*Term)
		if x.Kind == SFP64 {
			return FPSame(x, y)
		}
		return Eq(x, y)
	case StrV:
		return Boolc(x == b.(StrV))
	case Struct:
		y := b.(Struct)
		r := Boolc(true)
		for i := range x {
			r = And(r, in.structEq(x[i], y[i]))
		}
		return r
	case Array:
		y := b.(Array)
		r := Boolc(true)
		for i := range x {
			r = And(r, in.structEq(x[i], y[i]))
		}
		return r
	case SliceV:
		y := b.(SliceV)
		if len(x.D) != len(y.D) {
			return Boolc(false)
		}
		r := Boolc(true)
		for i := range x.D {
			r = And(r, in.structEq(x.D[i], y.D[i]))
		}
		return r
	case *Value:
		y, ok := b.(*Value)
		if !ok {
			return Boolc(false)
		}
		return in.structEq(*x, *y)
	case NilPtr:
		_, ok := b.(NilPtr)
		return Boolc(ok)
	}
	in.fail("unsupported", fmt.Sprintf("structEq %T", a))
	return nil
}

func (in *Interp) lungoCall(fr *frame, fn *ssa.Function, full string, args []Value, pos token.Pos) (Value, bool) {
	switch full {
	case "github.com/256dpi/lungo/bsonkit.cloneValue", "github.com/256dpi/lungo/bsonkit.ConvertValue":
		// Deferred execution of a pure copy: cloning a value whose type is still undecided yields a
		// value that becomes the REAL function's result as soon as the source is forced (and before
		// anybody can mutate the source). Avoids splitting on every type tag at clone time.
		if in.cfg.Params["eagerclone"] == 0 {
			if l, ok := args[0].(*Lazy); ok && l.Forced == nil {
				c := in.lazyCopy(l, &Closure{Fn: fn})
				if fn.Name() == "ConvertValue" {
					return Tuple{c, &Iface{}}, true
				}
				return c, true
			}
		}
		return nil, false
	case "github.com/256dpi/lungo/bsonkit.Transfer":
		// codec stub: marshal + unmarshal = a structure-preserving copy of a BSON-like value into fresh
		// memory (Go slices become arrays, string maps become documents). bsonkit.Transform,
		// TransformList and Decode run from their real SSA on top of it.
		if in.cfg.Params["oldcodecstubs"] == 1 {
			return nil, false
		}
		src := in.force(args[0])
		if src.T == nil {
			return in.mkError("cannot transfer nil"), true
		}
		val, ok := in.toBSON(src)
		if !ok {
			in.fail("unsupported", "Transfer of "+src.T.String()+" (only BSON-like values are modelled; struct encoding is the codec's business)")
		}
		out := in.force(args[1])
		dst, isPtr := out.V.(*Value)
		if !isPtr || out.T == nil {
			in.fail("unsupported", "Transfer into a non-pointer")
		}
		switch (*dst).(type) {
		case SliceV:
			// *bson.D
			iv, isI := val.(*Iface)
			if !isI {
				in.fail("unsupported", "Transfer: source is not a document")
			}
			sl, isSl := iv.V.(SliceV)
			if !isSl || !types.Identical(iv.T, in.tcache.named(primPkg, "D")) {
				return in.mkError("cannot decode a non-document into a document"), true
			}
			in.store(dst, sl, pos)
			return &Iface{}, true
		}
		in.fail("unsupported", "Transfer into "+out.T.String()+" (only *bson.D is modelled)")
	case "github.com/256dpi/lungo/bsonkit.Transform-old":
		// codec stub: document in, structure-preserving copy out
		v := in.force(args[0])
		if v.T == nil {
			return Tuple{NilPtr{}, in.mkError("cannot transform nil")}, true
		}
		var src Value = v.V
		if p, ok := src.(*Value); ok {
			src = *p
		}
		sl, ok := src.(SliceV)
		if !ok {
			in.fail("unsupported", "Transform of "+v.T.String())
		}
		var c Value = in.deepCopy(sl)
		return Tuple{&c, &Iface{}}, true
	case "github.com/256dpi/lungo/bsonkit.TransformList-old":
		v := in.force(args[0])
		if v.T == nil {
			return Tuple{SliceV{Nil: true}, in.mkError("expected array")}, true
		}
		sl, ok := v.V.(SliceV)
		if !ok {
			in.fail("unsupported", "TransformList of "+v.T.String())
		}
		d := make([]Value, len(sl.D))
		for i, e := range sl.D {
			ev := e
			if ifc, ok := e.(*Iface); ok {
				ev = ifc.V
			} else if lz, ok := e.(*Lazy); ok {
				ev = in.force(lz).V
			}
			if p, ok := ev.(*Value); ok {
				ev = *p
			}
			doc, ok := ev.(SliceV)
			if !ok {
				return Tuple{SliceV{Nil: true}, in.mkError("expected array of documents")}, true
			}
			var c Value = in.deepCopy(doc)
			d[i] = &c
		}
		return Tuple{SliceV{D: d}, &Iface{}}, true
	case "github.com/256dpi/lungo.assertOptions":
		return nil, true
	case "github.com/256dpi/lungo/bsonkit.Decode-old":
		// codec stub: decode a document into *bson.D as a copy in fresh memory
		src, ok := args[0].(*Value)
		if !ok {
			return in.mkError("cannot decode a nil document"), true
		}
		out := in.force(args[1])
		dst, ok := out.V.(*Value)
		if !ok || out.T == nil {
			in.fail("unsupported", "Decode into a non-pointer")
		}
		switch (*dst).(type) {
		case SliceV:
			in.store(dst, in.deepCopy(*src), pos)
			return &Iface{}, true
		}
		in.fail("unsupported", "Decode into "+out.T.String()+" (only *bson.D is modelled; struct decoding is the codec's business)")
	case "github.com/256dpi/lungo/bsonkit.DecodeList":
		list := args[0].(SliceV)
		out := in.force(args[1])
		dst, ok := out.V.(*Value)
		if !ok || out.T == nil {
			in.fail("unsupported", "DecodeList into a non-pointer")
		}
		d := make([]Value, len(list.D))
		for i, e := range list.D {
			p, ok := e.(*Value)
			if !ok {
				in.fail("unsupported", "DecodeList of a nil document")
			}
			d[i] = in.deepCopy(*p)
		}
		in.store(dst, SliceV{D: d}, pos)
		return &Iface{}, true
	}
	return nil, false
}

// ---------- context / tomb: executed from their real SSA (see Config.RunInits) ----------

func (in *Interp) contextCall(fr *frame, fn *ssa.Function, full string, args []Value, pos token.Pos) (Value, bool) {
	switch full {
	case "context.AfterFunc":
		in.fail("unsupported", "context.AfterFunc")
	case "context.WithValue":
		// the real function only adds reflection-based argument checks around &valueCtx{parent, key, val}
		if p := in.force(args[0]); p.T == nil {
			in.goPanicf(pos, "cannot create context from nil parent")
		}
		k := in.force(args[1])
		if k.T == nil {
			in.goPanicf(pos, "nil key")
		}
		if !types.Comparable(k.T) {
			in.goPanicf(pos, "key is not comparable")
		}
		vt := in.tcache.named("context", "valueCtx")
		var st Value = Struct{args[0], args[1], args[2]}
		return &Iface{T: types.NewPointer(vt), V: &st}, true
	}
	return nil, false
}

func (in *Interp) tombCall(fr *frame, fn *ssa.Function, full string, args []Value, pos token.Pos) (Value, bool) {
	return nil, false
}

// toBSON converts a Go value as the codec would see it into the canonical BSON domain (primitive.D,
// primitive.A, scalars) in FRESH memory: documents and arrays are copied, []interface{} and other
// slices of BSON values become arrays, string-keyed maps become documents, pointers are followed,
// binary payloads are copied. Lazy values are copied lazily (structural copy when forced).
func (in *Interp) toBSON(v Value) (Value, bool) {
	tc := in.tcache
	switch x := v.(type) {
	case *Lazy:
		if x.Forced == nil {
			return in.lazyCopy(x, nil), true
		}
		return in.toBSON(x.Forced)
	case *Iface:
		if x.T == nil {
			return x, true
		}
		switch t := x.T.Underlying().(type) {
		case *types.Pointer:
			p, ok := x.V.(*Value)
			if !ok {
				return &Iface{}, true // nil pointer encodes as null
			}
			return in.toBSON(&Iface{T: t.Elem(), V: *p})
		case *types.Slice:
			sl, ok := x.V.(SliceV)
			if !ok {
				return nil, false
			}
			// a document: slice of {Key string; Value interface{}}
			if st, ok := t.Elem().Underlying().(*types.Struct); ok && st.NumFields() == 2 && st.Field(0).Name() == "Key" {
				d := make([]Value, len(sl.D))
				for i, e := range sl.D {
					es := e.(Struct)
					cv, ok := in.toBSON(es[1])
					if !ok {
						return nil, false
					}
					d[i] = Struct{es[0], cv}
				}
				return &Iface{T: tc.named(primPkg, "D"), V: SliceV{D: d}}, true
			}
			// []byte stays binary data only inside primitive.Binary; other slices are arrays
			if b, ok := t.Elem().Underlying().(*types.Basic); ok && b.Kind() == types.Uint8 {
				return nil, false
			}
			d := make([]Value, len(sl.D))
			for i, e := range sl.D {
				ev := e
				if _, isI := t.Elem().Underlying().(*types.Interface); !isI {
					ev = &Iface{T: t.Elem(), V: e}
				}
				cv, ok := in.toBSON(ev)
				if !ok {
					return nil, false
				}
				d[i] = cv
			}
			return &Iface{T: tc.named(primPkg, "A"), V: SliceV{D: d}}, true
		case *types.Map:
			m, ok := x.V.(*MapV)
			if !ok {
				return &Iface{T: tc.named(primPkg, "D"), V: SliceV{D: []Value{}}}, true
			}
			var d []Value
			for _, j := range m.live() {
				k, ok := m.keys[j].(StrV)
				if !ok {
					return nil, false
				}
				ev := *m.vals[j]
				if _, isI := t.Elem().Underlying().(*types.Interface); !isI {
					ev = &Iface{T: t.Elem(), V: ev}
				}
				cv, ok := in.toBSON(ev)
				if !ok {
					return nil, false
				}
				d = append(d, Struct{k, cv})
			}
			if d == nil {
				d = []Value{}
			}
			return &Iface{T: tc.named(primPkg, "D"), V: SliceV{D: d}}, true
		case *types.Struct:
			// primitive.Binary: copy the payload; other primitive structs are plain values
			if types.Identical(x.T, tc.named(primPkg, "Binary")) {
				st := x.V.(Struct)
				data := st[1].(SliceV)
				nd := make([]Value, len(data.D))
				copy(nd, data.D)
				return &Iface{T: x.T, V: Struct{st[0], SliceV{D: nd}}}, true
			}
			if n, ok := x.T.(*types.Named); ok && n.Obj().Pkg() != nil && (n.Obj().Pkg().Path() == primPkg || n.Obj().Pkg().Path() == bsonkitPkg) {
				return &Iface{T: x.T, V: copyVal(x.V)}, true
			}
			return nil, false
		case *types.Basic, *types.Array:
			if b, ok := t.(*types.Basic); ok && b.Kind() == types.Int {
				// a Go int encodes as int32 or int64 depending on its value: the codec's business
				return nil, false
			}
			return &Iface{T: x.T, V: copyVal(x.V)}, true
		}
	}
	return nil, false
}
