package gosym

import (
	"fmt"
	"go/types"

	"golang.org/x/tools/go/ssa"
)

// Value is a run-time value of the interpreted program.
//
//	*Term       bool, integers (bit-vectors), float64
//	StrV        string (always concrete)
//	Struct      struct value (copied on load/store)
//	Array       array value (copied on load/store)
//	SliceV      slice: shares its Go backing array exactly like Go
//	*Value      pointer (to a slot: variable, struct field, array/slice element)
//	NilPtr      nil pointer / nil map / nil func / nil chan
//	*Iface      interface value (T == nil: nil interface)
//	*Lazy       interface value whose dynamic type is still a symbolic choice
//	*MapV       map
//	*Closure    function value
//	Tuple       multiple results
//	*ChanV      channel
//	*Opaque     stubbed object (marshalled bytes etc.)
type Value interface{}

type StrV string
type Struct []Value
type Array []Value
type SliceV struct {
	D   []Value
	Nil bool
}
type Iface struct {
	T types.Type // nil => nil interface
	V Value
}
type Lazy struct {
	ID     string
	Tags   uint32
	Depth  int
	Keys   []string
	MaxLen int
	Forced *Iface
	CopyOf *Lazy    // this value is a (codec or clone) copy of another lazy value
	Via    *Closure // copy function applied when forced (nil: structural deep copy)
	deps   []*Lazy  // copies to materialise as soon as this value is forced
	frozen string
	topDoc bool
}
type Closure struct {
	Fn   *ssa.Function
	Free []Value
	Recv Value // bound method receiver (set when HasRecv)
	Has  bool
}
type Tuple []Value
type NilPtr struct{}
type MapV struct {
	idx     map[string]int
	keys    []Value
	vals    []*Value
	deleted []bool
	n       int
}
type mapIter struct {
	m     *MapV
	order []int
	pos   int
	str   string
	isS   bool
}
type Opaque struct {
	Kind string
	V    Value
}

func newMap() *MapV { return &MapV{idx: map[string]int{}} }

func (m *MapV) set(k string, key, val Value) {
	if i, ok := m.idx[k]; ok {
		storeInto(m.vals[i], val)
		return
	}
	m.idx[k] = len(m.keys)
	m.keys = append(m.keys, key)
	v := copyVal(val)
	m.vals = append(m.vals, &v)
	m.deleted = append(m.deleted, false)
	m.n++
}

func (m *MapV) get(k string) (*Value, bool) {
	if i, ok := m.idx[k]; ok {
		return m.vals[i], true
	}
	return nil, false
}

func (m *MapV) del(k string) {
	if i, ok := m.idx[k]; ok {
		m.deleted[i] = true
		delete(m.idx, k)
		m.n--
	}
}

func (m *MapV) live() []int {
	var r []int
	for i := range m.keys {
		if !m.deleted[i] {
			r = append(r, i)
		}
	}
	return r
}

func copyVal(v Value) Value {
	switch v := v.(type) {
	case Struct:
		c := make(Struct, len(v))
		for i := range v {
			c[i] = copyVal(v[i])
		}
		return c
	case Array:
		c := make(Array, len(v))
		for i := range v {
			c[i] = copyVal(v[i])
		}
		return c
	}
	return v
}

// storeInto writes v into the slot, keeping the identity of nested struct/array
// storage so that pointers to fields and elements stay valid (as in Go).
func storeInto(p *Value, v Value) {
	switch nv := v.(type) {
	case Struct:
		if old, ok := (*p).(Struct); ok && len(old) == len(nv) {
			for i := range nv {
				storeInto(&old[i], nv[i])
			}
			return
		}
		*p = copyVal(v)
	case Array:
		if old, ok := (*p).(Array); ok && len(old) == len(nv) {
			for i := range nv {
				storeInto(&old[i], nv[i])
			}
			return
		}
		*p = copyVal(v)
	default:
		*p = v
	}
}

func intWidth(t *types.Basic) int {
	switch t.Kind() {
	case types.Int8, types.Uint8:
		return 8
	case types.Int16, types.Uint16:
		return 16
	case types.Int32, types.Uint32:
		return 32
	default:
		return 64
	}
}

func isSigned(t types.Type) bool {
	b, ok := t.Underlying().(*types.Basic)
	return ok && b.Info()&types.IsUnsigned == 0
}

func zero(t types.Type) Value {
	switch t := t.Underlying().(type) {
	case *types.Basic:
		switch {
		case t.Info()&types.IsBoolean != 0:
			return Boolc(false)
		case t.Info()&types.IsInteger != 0:
			return BVc(intWidth(t), 0)
		case t.Info()&types.IsFloat != 0:
			return FPc(0)
		case t.Info()&types.IsString != 0:
			return StrV("")
		case t.Kind() == types.UnsafePointer:
			return NilPtr{}
		case t.Kind() == types.UntypedNil:
			return NilPtr{}
		}
	case *types.Struct:
		s := make(Struct, t.NumFields())
		for i := range s {
			s[i] = zero(t.Field(i).Type())
		}
		return s
	case *types.Array:
		a := make(Array, t.Len())
		for i := range a {
			a[i] = zero(t.Elem())
		}
		return a
	case *types.Interface:
		return &Iface{}
	case *types.Pointer, *types.Signature, *types.Map, *types.Chan:
		return NilPtr{}
	case *types.Slice:
		return SliceV{Nil: true}
	case *types.Tuple:
		tt := make(Tuple, t.Len())
		for i := range tt {
			tt[i] = zero(t.At(i).Type())
		}
		return tt
	}
	panic(fmt.Sprintf("zero: %v", t))
}

var stdSizes = types.SizesFor("gc", "amd64")

// size classes of the Go runtime (runtime/sizeclasses.go), enough for small objects.
var sizeClasses = []int{0, 8, 16, 24, 32, 48, 64, 80, 96, 112, 128, 144, 160, 176, 192, 208, 224, 240, 256, 288, 320, 352, 384, 416, 448, 480, 512, 576, 640, 704, 768, 896, 1024, 1152, 1280, 1408, 1536, 1792, 2048, 2304, 2688, 3072, 3200, 3456, 4096, 4864, 5376, 6144, 6528, 6784, 6912, 8192, 9472, 9728, 10240, 10880, 12288, 13568, 14336, 16384, 18432, 19072, 20480, 21760, 24576, 27264, 28672, 32768}

func roundupsize(size int, noscan bool) int {
	req := size
	if !noscan && size > 512 {
		req += 8
	}
	if req <= 32768-8 || (noscan && req <= 32768) {
		for _, c := range sizeClasses {
			if c >= req {
				return c - (req - size)
			}
		}
	}
	// large: round up to page size
	const page = 8192
	return (req + page - 1) / page * page
}

// growCap mirrors runtime.growslice's capacity computation.
func growCap(oldCap, newLen int, et types.Type) int {
	newcap := oldCap
	doublecap := newcap + newcap
	if newLen > doublecap {
		newcap = newLen
	} else {
		const threshold = 256
		if oldCap < threshold {
			newcap = doublecap
		} else {
			for {
				newcap += (newcap + 3*threshold) >> 2
				if uint(newcap) >= uint(newLen) {
					break
				}
			}
		}
	}
	es := int(stdSizes.Sizeof(et))
	if es == 0 {
		return newcap
	}
	mem := roundupsize(newcap*es, !hasPointers(et))
	return mem / es
}

func hasPointers(t types.Type) bool {
	switch t := t.Underlying().(type) {
	case *types.Basic:
		return t.Info()&types.IsString != 0 || t.Kind() == types.UnsafePointer
	case *types.Struct:
		for i := 0; i < t.NumFields(); i++ {
			if hasPointers(t.Field(i).Type()) {
				return true
			}
		}
		return false
	case *types.Array:
		return hasPointers(t.Elem())
	}
	return true
}
