package gosym

import (
	"fmt"
	"go/token"
	"go/types"
	"os"
	"runtime/debug"
	"sort"
	"strconv"
	"strings"
	"sync"
	"time"

	"golang.org/x/tools/go/packages"
	"golang.org/x/tools/go/ssa"
	"golang.org/x/tools/go/ssa/ssautil"
)

// Program is /repo's current source lowered to SSA (with harness overlay).
type Program struct {
	Prog   *ssa.Program
	Pkgs   map[string]*ssa.Package // by import path
	LoadS  float64
	FileOf func(fn *ssa.Function) string
}

// Load type-checks and builds SSA for the given package patterns of the module in dir.
func Load(dir string, overlay map[string][]byte, patterns []string) (*Program, error) {
	t0 := time.Now()
	cfg := &packages.Config{Mode: packages.LoadAllSyntax, Dir: dir, Overlay: overlay,
		Env: append(os.Environ(), "GOFLAGS=-mod=mod", "GOPROXY=off")}
	pkgs, err := packages.Load(cfg, patterns...)
	if err != nil {
		return nil, err
	}
	var errs []string
	packages.Visit(pkgs, nil, func(p *packages.Package) {
		for _, e := range p.Errors {
			errs = append(errs, e.Error())
		}
	})
	if len(errs) > 0 {
		return nil, fmt.Errorf("load errors:\n%s", strings.Join(errs, "\n"))
	}
	prog, spkgs := ssautil.AllPackages(pkgs, ssa.InstantiateGenerics)
	prog.Build()
	p := &Program{Prog: prog, Pkgs: map[string]*ssa.Package{}, LoadS: time.Since(t0).Seconds()}
	for _, sp := range spkgs {
		if sp != nil {
			p.Pkgs[sp.Pkg.Path()] = sp
		}
	}
	return p, nil
}

type PathResult struct {
	Kind     string            `json:"kind"`
	Msg      string            `json:"msg,omitempty"`
	Prefix   []int64           `json:"prefix,omitempty"`
	Model    map[string]string `json:"model,omitempty"` // id -> value bits (decimal uint64)
	Observed map[string]string `json:"observed,omitempty"`
	Steps    int               `json:"steps"`
	Asserts  int               `json:"asserts"`
	Sched    []int             `json:"sched,omitempty"`
}

type RunResult struct {
	Harness         string
	Paths           int
	Steps           int
	Outcomes        map[string]int
	Violations      []PathResult
	Inconclusive    []PathResult
	Witnesses       []PathResult
	Funcs           map[string]int
	Queries         int
	Unsat           int
	Sat             int
	Unknown         int
	SolverS         float64
	WallS           float64
	AssertsTotal    int
	PathsWithAssert int
	Reached         map[string]int
	Truncated       bool
}

type RunOpts struct {
	Workers   int
	Solver    string
	MaxPaths  int
	MaxViol   int
	Witnesses int
	Deadline  time.Time
	Verbose   bool
}

func DefaultConfig() *Config {
	return &Config{MaxSteps: 3000000, MaxDepth: 400, LoopBound: 100000, ConcK: 8, StrPool: []string{"", "a", "b"},
		TimeoutMs: 30000, Params: map[string]int{},
		RunInits: []string{"github.com/256dpi/lungo", "gopkg.in/tomb.v2", "context", "go.mongodb.org/mongo-driver/mongo/options"}}
}

// Run explores all paths of one harness function.
func (p *Program) Run(pkgPath, fn string, cfg *Config, o RunOpts) *RunResult {
	t0 := time.Now()
	pkg := p.Pkgs[pkgPath]
	if pkg == nil {
		panic("package not loaded: " + pkgPath)
	}
	entry := pkg.Func(fn)
	if entry == nil {
		panic("harness not found: " + pkgPath + "." + fn)
	}
	res := &RunResult{Harness: pkgPath + "." + fn, Outcomes: map[string]int{}, Funcs: map[string]int{}, Reached: map[string]int{}}
	var mu sync.Mutex
	work := [][]int64{{}}
	busy := 0
	stop := false
	var wg sync.WaitGroup
	for w := 0; w < o.Workers; w++ {
		wg.Add(1)
		go func() {
			defer wg.Done()
			sol := NewSolver(o.Solver, cfg.TimeoutMs)
			defer func() { sol.Close() }()
			for {
				mu.Lock()
				for len(work) == 0 && busy > 0 && !stop {
					mu.Unlock()
					time.Sleep(200 * time.Microsecond)
					mu.Lock()
				}
				if len(work) == 0 || stop {
					mu.Unlock()
					break
				}
				if (o.MaxPaths > 0 && res.Paths >= o.MaxPaths) || (!o.Deadline.IsZero() && time.Now().After(o.Deadline)) {
					res.Truncated = true
					stop = true
					mu.Unlock()
					break
				}
				prefix := work[len(work)-1]
				work = work[:len(work)-1]
				busy++
				mu.Unlock()

				pr, in, died := p.runPath(pkg, entry, cfg, sol, prefix, o)
				if died {
					// solver process died: restart it, path is inconclusive
					sol.Close()
					sol = NewSolver(o.Solver, cfg.TimeoutMs)
				}

				mu.Lock()
				res.Outcomes[pr.Kind]++
				res.Paths++
				res.Steps += pr.Steps
				res.AssertsTotal += pr.Asserts
				if pr.Asserts > 0 && pr.Kind == "return" {
					res.PathsWithAssert++
				}
				for f, n := range in.funcs {
					res.Funcs[f.String()] += n
				}
				for r := range in.reached {
					res.Reached[r]++
				}
				switch pr.Kind {
				case "return":
					if pr.Model != nil {
						res.Witnesses = append(res.Witnesses, pr)
					}
				case "infeasible":
				case "assert", "panic", "deadlock":
					if len(res.Violations) < o.MaxViol {
						res.Violations = append(res.Violations, pr)
					}
					if o.Verbose {
						fmt.Fprintf(os.Stderr, "  VIOLATION-CANDIDATE %s: %s\n", pr.Kind, trunc(pr.Msg, 300))
					}
				default:
					if len(res.Inconclusive) < 20 {
						res.Inconclusive = append(res.Inconclusive, pr)
					}
					if o.Verbose {
						fmt.Fprintf(os.Stderr, "  INCONCLUSIVE %s: %s\n", pr.Kind, trunc(pr.Msg, 300))
					}
				}
				if o.Verbose && res.Paths%2000 == 0 {
					fmt.Fprintf(os.Stderr, "  progress %s paths=%d queue=%d %.0fs\n", fn, res.Paths, len(work), time.Since(t0).Seconds())
				}
				work = append(work, in.newWork...)
				busy--
				mu.Unlock()
			}
			mu.Lock()
			res.Queries += sol.Queries
			res.Unsat += sol.Unsat
			res.Sat += sol.Sat
			res.Unknown += sol.Unknown
			res.SolverS += sol.Time.Seconds()
			mu.Unlock()
		}()
	}
	wg.Wait()
	if len(work) > 0 {
		res.Truncated = true
	}
	res.WallS = time.Since(t0).Seconds()
	return res
}

var witnessCount sync.Map

func (p *Program) runPath(pkg *ssa.Package, entry *ssa.Function, cfg *Config, sol *Solver, prefix []int64, o RunOpts) (pr PathResult, in *Interp, died bool) {
	in = &Interp{prog: p.Prog, sol: sol, cfg: cfg, globals: map[*ssa.Global]*Value{}, prefix: prefix,
		funcs: map[*ssa.Function]int{}, symIDs: map[string]string{}, known: map[string]bool{}, addrs: map[*Value]*Term{},
		reached: map[string]bool{}, env: &envModel{}, ghost: map[string]Value{}, loopCnt: map[*ssa.BasicBlock]int{}}
	in.tcache = newTypeCache(p.Prog)
	in.sched = newScheduler(in)
	startDepth := sol.depth
	sol.Push()
	kind, msg := "return", ""
	func() {
		defer func() {
			r := recover()
			if r == nil {
				return
			}
			switch e := r.(type) {
			case pathEnd:
				kind, msg = e.kind, e.msg
			case *goPanic:
				kind, msg = "panic", e.msg+" at "+e.pos
			case solverDied:
				kind, msg, died = "unknown", "solver process died: "+e.msg, true
			case pathAbort:
				kind, msg = "unknown", "path aborted"
			default:
				kind, msg = "unsupported", fmt.Sprintf("engine error: %v\n%s", r, trunc(string(debug.Stack()), 3000))
			}
		}()
		root := &frame{g: in.sched.gs[0]}
		// package initialisers (dependency order is handled by the init functions themselves)
		in.call(root, pkg.Func("init"), nil, nil, token.NoPos)
		in.call(root, entry, nil, nil, token.NoPos)
	}()
	in.sched.shutdown()
	pr = PathResult{Kind: kind, Msg: msg, Steps: in.steps, Asserts: in.asserts, Prefix: in.prefix}
	if len(in.sched.trace) > 0 && cfg.Concurrent {
		pr.Sched = in.sched.trace
	}
	if !died {
		needModel := kind == "assert" || kind == "panic" || kind == "deadlock"
		if kind == "return" && o.Witnesses > 0 {
			key := entry.String()
			v, _ := witnessCount.LoadOrStore(key, new(int64))
			cnt := v.(*int64)
			if *cnt < int64(o.Witnesses) {
				needModel = true
			}
		}
		if needModel {
			func() {
				defer func() {
					if r := recover(); r != nil {
						if _, ok := r.(solverDied); ok {
							died = true
						}
					}
				}()
				r := sol.Check()
				if r == "sat" {
					names := append([]string{}, in.symNames...)
					m := sol.Model(names)
					pr.Model = map[string]string{}
					for n, v := range m {
						id, ok := in.symIDs[n]
						if !ok {
							id, ok = in.symIDs["|"+strings.Trim(n, "|")+"|"]
						}
						if !ok {
							continue
						}
						if bits, ok := parseSMTValue(v); ok {
							pr.Model[id] = strconv.FormatUint(bits, 10)
						}
					}
					if len(in.observed) > 0 {
						pr.Observed = map[string]string{}
						for _, ob := range in.observed {
							if ob.t.Const {
								pr.Observed[ob.tag] = strconv.FormatUint(ob.t.U, 10)
								continue
							}
							sol.send("(get-value (" + ob.t.String() + "))")
							// read one balanced s-expression
							txt := readSexp(sol)
							// ((term value))
							inner := strings.TrimSpace(txt)
							inner = inner[1 : len(inner)-1]
							parts := splitSexp(strings.TrimSpace(inner)[1 : len(strings.TrimSpace(inner))-1])
							if len(parts) >= 2 {
								if bits, ok := parseSMTValue(parts[len(parts)-1]); ok {
									pr.Observed[ob.tag] = strconv.FormatUint(bits, 10)
								}
							}
						}
					}
					if kind == "return" {
						v, _ := witnessCount.Load(entry.String())
						*(v.(*int64))++
					}
				} else if needModel && kind != "return" {
					// a violation candidate without a model cannot be replayed: inconclusive
					pr.Kind = "unknown"
					pr.Msg = "no model for violation candidate (" + r + "): " + kind + ": " + msg
				}
			}()
		}
	}
	if !died {
		for sol.depth > startDepth {
			sol.Pop()
		}
	}
	return pr, in, died
}

func readSexp(s *Solver) string {
	var sb strings.Builder
	depth := 0
	started := false
	for {
		b, err := s.out.ReadByte()
		if err != nil {
			panic(solverDied{err.Error()})
		}
		sb.WriteByte(b)
		if b == '(' {
			depth++
			started = true
		} else if b == ')' {
			depth--
		}
		if started && depth == 0 {
			break
		}
	}
	s.out.ReadString('\n')
	return sb.String()
}

// parseSMTValue parses bit-vector, Bool and FloatingPoint(11,53) model values into raw bits.
func parseSMTValue(v string) (uint64, bool) {
	v = strings.TrimSpace(v)
	switch {
	case v == "true":
		return 1, true
	case v == "false":
		return 0, true
	case strings.HasPrefix(v, "#x"):
		u, err := strconv.ParseUint(v[2:], 16, 64)
		return u, err == nil
	case strings.HasPrefix(v, "#b"):
		u, err := strconv.ParseUint(v[2:], 2, 64)
		return u, err == nil
	case strings.HasPrefix(v, "(_ bv"):
		f := strings.Fields(v[5 : len(v)-1])
		u, err := strconv.ParseUint(f[0], 10, 64)
		return u, err == nil
	case strings.HasPrefix(v, "(fp "):
		f := strings.Fields(v[4 : len(v)-1])
		if len(f) != 3 {
			return 0, false
		}
		var bits uint64
		for _, part := range f {
			pb, ok := parseSMTValue(part)
			if !ok {
				return 0, false
			}
			var w int
			if strings.HasPrefix(part, "#b") {
				w = len(part) - 2
			} else {
				w = (len(part) - 2) * 4
			}
			bits = bits<<uint(w) | pb
		}
		return bits, true
	case strings.HasPrefix(v, "(_ +zero"):
		return 0, true
	case strings.HasPrefix(v, "(_ -zero"):
		return 1 << 63, true
	case strings.HasPrefix(v, "(_ +oo"):
		return 0x7FF0000000000000, true
	case strings.HasPrefix(v, "(_ -oo"):
		return 0xFFF0000000000000, true
	case strings.HasPrefix(v, "(_ NaN"):
		return 0x7FF8000000000001, true
	}
	return 0, false
}

// FuncList returns the executed lungo functions sorted by name with call counts.
func (r *RunResult) FuncList(prefix string) []string {
	var fs []string
	for f, n := range r.Funcs {
		if strings.Contains(f, prefix) {
			fs = append(fs, fmt.Sprintf("%s x%d", f, n))
		}
	}
	sort.Strings(fs)
	return fs
}

var _ = types.Typ
