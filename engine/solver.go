package gosym

import (
	"bufio"
	"fmt"
	"io"
	"os/exec"
	"strings"
	"time"
)

// Solver is one long-lived SMT solver process spoken to in SMT-LIB2 over a pipe.
type Solver struct {
	Bin     string
	cmd     *exec.Cmd
	in      io.WriteCloser
	out     *bufio.Reader
	decl    map[string]bool
	Queries int
	Unsat   int
	Sat     int
	Unknown int
	Retries int
	Time    time.Duration
	Log     io.Writer
	depth   int
}

// SolverArgs returns the command line for a solver binary with a per-query time limit in ms.
func SolverArgs(bin string, tlimitMs int) []string {
	if strings.Contains(bin, "cvc5") {
		a := []string{"--incremental", "--fp-exp", "--lang", "smt2"}
		if tlimitMs > 0 {
			a = append(a, fmt.Sprintf("--tlimit-per=%d", tlimitMs))
		}
		return a
	}
	a := []string{"-in"}
	if tlimitMs > 0 {
		a = append(a, fmt.Sprintf("-t:%d", tlimitMs))
	}
	return a
}

func NewSolver(bin string, tlimitMs int) *Solver {
	cmd := exec.Command(bin, SolverArgs(bin, tlimitMs)...)
	in, _ := cmd.StdinPipe()
	outp, _ := cmd.StdoutPipe()
	cmd.Stderr = cmd.Stdout
	if err := cmd.Start(); err != nil {
		panic(err)
	}
	s := &Solver{Bin: bin, cmd: cmd, in: in, out: bufio.NewReader(outp), decl: map[string]bool{}}
	s.send("(set-option :global-declarations true)")
	s.send("(set-option :produce-models true)")
	s.send("(set-logic ALL)")
	return s
}

func (s *Solver) send(l string) {
	if s.Log != nil {
		fmt.Fprintln(s.Log, l)
	}
	io.WriteString(s.in, l+"\n")
}

func (s *Solver) Declare(name, sort string) {
	if s.decl[name] {
		return
	}
	s.decl[name] = true
	s.send(fmt.Sprintf("(declare-const %s %s)", name, sort))
}

func (s *Solver) Push()          { s.depth++; s.send("(push 1)") }
func (s *Solver) Pop()           { s.depth--; s.send("(pop 1)") }
func (s *Solver) Assert(t *Term) { s.send("(assert " + t.String() + ")") }

// Check returns "sat", "unsat" or "unknown" (timeouts, errors and anything else are unknown).
func (s *Solver) Check() string {
	// a per-query time limit can be hit spuriously when the machine is overloaded: an "unknown"
	// is retried twice before it counts (an "(error" answer never is)
	r := s.check1()
	for i := 0; i < 2 && r == "unknown"; i++ {
		s.Retries++
		r = s.check1()
	}
	return r
}

func (s *Solver) check1() string {
	t0 := time.Now()
	s.send("(check-sat)")
	line, err := s.out.ReadString('\n')
	s.Queries++
	s.Time += time.Since(t0)
	if err != nil {
		panic(solverDied{err.Error()})
	}
	line = strings.TrimSpace(line)
	switch line {
	case "sat":
		s.Sat++
	case "unsat":
		s.Unsat++
	default:
		s.Unknown++
		if strings.HasPrefix(line, "(error") {
			// an error line makes everything after it unreliable: inconclusive
			return "unknown: " + line
		}
		return "unknown"
	}
	return line
}

type solverDied struct{ msg string }

// Model asks for the values of the given names; returns name -> smt value text.
func (s *Solver) Model(names []string) map[string]string {
	res := map[string]string{}
	if len(names) == 0 {
		return res
	}
	s.send("(get-value (" + strings.Join(names, " ") + "))")
	var sb strings.Builder
	depth := 0
	started := false
	for {
		b, err := s.out.ReadByte()
		if err != nil {
			panic(solverDied{err.Error()})
		}
		sb.WriteByte(b)
		if b == '(' {
			depth++
			started = true
		} else if b == ')' {
			depth--
		}
		if started && depth == 0 {
			break
		}
	}
	// consume rest of line
	s.out.ReadString('\n')
	txt := strings.TrimSpace(sb.String())
	// parse ((name value) (name value) ...)
	items := splitSexp(txt[1 : len(txt)-1])
	for _, it := range items {
		it = strings.TrimSpace(it)
		if len(it) < 2 {
			continue
		}
		parts := splitSexp(it[1 : len(it)-1])
		if len(parts) >= 2 {
			res[strings.Trim(strings.TrimSpace(parts[0]), "|")] = strings.TrimSpace(strings.Join(parts[1:], " "))
		}
	}
	// key the result by the names as requested (solvers print |x| as x when quoting is not needed)
	for _, n := range names {
		if v, ok := res[strings.Trim(n, "|")]; ok {
			res[n] = v
		}
	}
	return res
}

// splitSexp splits a string into top-level s-expressions / atoms.
func splitSexp(s string) []string {
	var out []string
	depth := 0
	start := -1
	for i := 0; i < len(s); i++ {
		c := s[i]
		switch {
		case c == '(':
			if depth == 0 && start < 0 {
				start = i
			}
			depth++
		case c == ')':
			depth--
			if depth == 0 && start >= 0 {
				out = append(out, s[start:i+1])
				start = -1
			}
		case c == ' ' || c == '\n' || c == '\t' || c == '\r':
			if depth == 0 && start >= 0 {
				out = append(out, s[start:i])
				start = -1
			}
		default:
			if start < 0 {
				start = i
			}
		}
	}
	if start >= 0 {
		out = append(out, s[start:])
	}
	return out
}

func (s *Solver) Close() {
	s.in.Close()
	done := make(chan struct{})
	go func() { s.cmd.Wait(); close(done) }()
	select {
	case <-done:
	case <-time.After(2 * time.Second):
		s.cmd.Process.Kill()
	}
}
