package gosym

import (
	"fmt"
	"go/token"
	"go/types"

	"golang.org/x/tools/go/ssa"
)

func (in *Interp) at(p token.Pos) string { return in.prog.Fset.Position(p).String() }

func (in *Interp) eval(fr *frame, v ssa.Value) Value {
	switch i := v.(type) {
	case *ssa.Alloc:
		var z Value = zero(i.Type().(*types.Pointer).Elem())
		return &z
	case *ssa.UnOp:
		x := in.get(fr, i.X)
		switch i.Op {
		case token.MUL:
			p, ok := x.(*Value)
			if !ok {
				in.goPanicf(i.Pos(), "invalid memory address or nil pointer dereference")
			}
			return copyVal(*p)
		case token.NOT:
			return Not(x.(*Term))
		case token.SUB:
			t := x.(*Term)
			if t.Kind == SFP64 {
				return FPNeg(t)
			}
			return BVBin("sub", true, BVc(t.W, 0), t)
		case token.XOR:
			t := x.(*Term)
			return BVBin("xor", false, t, BVc(t.W, ^uint64(0)))
		case token.ARROW:
			return in.chanRecv(fr, x, i.CommaOk, i.Type(), i.Pos())
		}
	case *ssa.BinOp:
		x, y := in.get(fr, i.X), in.get(fr, i.Y)
		if i.Op == token.EQL || i.Op == token.NEQ {
			// comparison of an interface with a concrete operand: the concrete one is boxed first
			_, xi := i.X.Type().Underlying().(*types.Interface)
			_, yi := i.Y.Type().Underlying().(*types.Interface)
			if xi && !yi {
				if _, isNil := y.(NilPtr); !isNil || !isNilConst(i.Y) {
					y = &Iface{T: i.Y.Type(), V: y}
				}
			} else if yi && !xi {
				if _, isNil := x.(NilPtr); !isNil || !isNilConst(i.X) {
					x = &Iface{T: i.X.Type(), V: x}
				}
			}
		}
		return in.binop(i.Op, i.X.Type(), x, y, i.Pos())
	case *ssa.Call:
		return in.doCall(fr, &i.Call, i.Pos())
	case *ssa.MakeInterface:
		return &Iface{T: i.X.Type(), V: in.get(fr, i.X)}
	case *ssa.ChangeInterface:
		return in.get(fr, i.X)
	case *ssa.TypeAssert:
		return in.typeAssert(i, in.get(fr, i.X))
	case *ssa.Extract:
		return in.get(fr, i.Tuple).(Tuple)[i.Index]
	case *ssa.Convert:
		return in.convert(i.X.Type(), i.Type(), in.get(fr, i.X), i.Pos())
	case *ssa.ChangeType:
		return in.get(fr, i.X)
	case *ssa.MultiConvert:
		return in.convert(i.X.Type(), i.Type(), in.get(fr, i.X), i.Pos())
	case *ssa.FieldAddr:
		p, ok := in.get(fr, i.X).(*Value)
		if !ok {
			in.goPanicf(i.Pos(), "invalid memory address or nil pointer dereference")
		}
		st, isSt := (*p).(Struct)
		if !isSt {
			in.fail("unsupported", fmt.Sprintf("field address of %T in %s at %s", *p, fr.fn, in.at(i.Pos())))
		}
		return &st[i.Field]
	case *ssa.Field:
		return copyVal(in.get(fr, i.X).(Struct)[i.Field])
	case *ssa.IndexAddr:
		x := in.get(fr, i.X)
		it := in.get(fr, i.Index).(*Term)
		switch x := x.(type) {
		case SliceV:
			idx := in.checkIndex(it, len(x.D), i.Pos())
			return &x.D[idx]
		case *Value:
			a := (*x).(Array)
			idx := in.checkIndex(it, len(a), i.Pos())
			return &a[idx]
		case NilPtr:
			in.goPanicf(i.Pos(), "invalid memory address or nil pointer dereference")
		}
	case *ssa.Index:
		x := in.get(fr, i.X)
		it := in.get(fr, i.Index).(*Term)
		switch x := x.(type) {
		case Array:
			idx := in.checkIndex(it, len(x), i.Pos())
			return copyVal(x[idx])
		case StrV:
			idx := in.checkIndex(it, len(x), i.Pos())
			return BVc(8, uint64(x[idx]))
		}
	case *ssa.Lookup:
		x := in.get(fr, i.X)
		switch x := x.(type) {
		case StrV:
			idx := in.checkIndex(in.get(fr, i.Index).(*Term), len(x), i.Pos())
			return BVc(8, uint64(x[idx]))
		case *MapV:
			kv := in.get(fr, i.Index)
			if kt, isT := kv.(*Term); isT && !kt.Const {
				kv = in.symbolicKey(x, kt)
			}
			k := in.mapKey(kv)
			var val Value
			ok := false
			if p, found := x.get(k); found {
				val, ok = copyVal(*p), true
			} else {
				val = zero(i.X.Type().Underlying().(*types.Map).Elem())
			}
			if i.CommaOk {
				return Tuple{val, Boolc(ok)}
			}
			return val
		case NilPtr:
			in.mapKey(in.get(fr, i.Index)) // may panic on unhashable
			val := zero(i.X.Type().Underlying().(*types.Map).Elem())
			if i.CommaOk {
				return Tuple{val, Boolc(false)}
			}
			return val
		}
	case *ssa.MakeMap:
		return newMap()
	case *ssa.MakeChan:
		return &ChanV{cap: in.cint(in.get(fr, i.Size)), elem: i.Type().Underlying().(*types.Chan).Elem()}
	case *ssa.MakeSlice:
		lt := in.get(fr, i.Len).(*Term)
		ct := in.get(fr, i.Cap).(*Term)
		if !lt.Const || !ct.Const {
			// runtime.makeslice panics iff len < 0, len > cap or cap*elemsize exceeds maxAlloc (2^48 on amd64)
			es := stdSizes.Sizeof(i.Type().Underlying().(*types.Slice).Elem())
			if es < 1 {
				es = 1
			}
			lim := BVc(64, uint64((1<<48)/es))
			okc := And(BVCmp("le", false, SignExt(ct, 64), lim), BVCmp("le", false, SignExt(lt, 64), SignExt(ct, 64)))
			if !in.branch(okc) {
				in.goPanicf(i.Pos(), "makeslice: len or cap out of range")
			}
		}
		n := in.cint(lt)
		c := in.cint(ct)
		if n < 0 || c < n {
			in.goPanicf(i.Pos(), "makeslice: len out of range")
		}
		if c > 1<<22 {
			in.fail("bound", fmt.Sprintf("allocation of %d elements at %s is beyond what the engine models", c, in.at(i.Pos())))
		}
		d := make([]Value, n, c)
		et := i.Type().Underlying().(*types.Slice).Elem()
		for k := range d {
			d[k] = zero(et)
		}
		return SliceV{D: d}
	case *ssa.Slice:
		return in.slice(fr, i)
	case *ssa.MakeClosure:
		c := &Closure{Fn: i.Fn.(*ssa.Function)}
		for _, b := range i.Bindings {
			c.Free = append(c.Free, in.get(fr, b))
		}
		return c
	case *ssa.Range:
		x := in.get(fr, i.X)
		switch x := x.(type) {
		case *MapV:
			return in.newMapIter(x)
		case StrV:
			return &mapIter{str: string(x), isS: true}
		case NilPtr:
			return &mapIter{m: newMap()}
		}
	case *ssa.Next:
		it := in.get(fr, i.Iter).(*mapIter)
		if it.isS {
			if it.pos >= len(it.str) {
				return Tuple{Boolc(false), BVc(64, 0), BVc(32, 0)}
			}
			r, sz := rune(it.str[it.pos]), 1
			for _, rr := range it.str[it.pos:] {
				r = rr
				sz = len(string(rr))
				break
			}
			p := it.pos
			it.pos += sz
			return Tuple{Boolc(true), BVc(64, uint64(p)), BVc(32, uint64(r))}
		}
		for it.pos < len(it.order) {
			j := it.order[it.pos]
			it.pos++
			if it.m.deleted[j] {
				continue
			}
			return Tuple{Boolc(true), it.m.keys[j], copyVal(*it.m.vals[j])}
		}
		return Tuple{Boolc(false), nil, nil}
	case *ssa.Select:
		return in.selectStmt(fr, i)
	case *ssa.SliceToArrayPointer:
		x := in.get(fr, i.X).(SliceV)
		n := int(i.Type().(*types.Pointer).Elem().Underlying().(*types.Array).Len())
		if len(x.D) < n {
			in.goPanicf(i.Pos(), "cannot convert slice with length %d to array or pointer to array with length %d", len(x.D), n)
		}
		var a Value = Array(x.D[:n:n])
		return &a
	}
	in.fail("unsupported", fmt.Sprintf("value %T: %s in %s", v, v, fr.fn))
	return nil
}

// symbolicKey resolves a lookup with a symbolic integer key by forking over the keys present in the
// map plus the alternative "none of them" (for which any absent concrete key is representative).
func (in *Interp) symbolicKey(m *MapV, kt *Term) Value {
	live := m.live()
	var keys []*Term
	for _, j := range live {
		if t, ok := m.keys[j].(*Term); ok && t.Const && t.W == kt.W {
			keys = append(keys, t)
		}
	}
	none := Boolc(true)
	for _, t := range keys {
		none = And(none, Not(Eq(kt, t)))
	}
	k := in.decide(len(keys)+1, func(i int) *Term {
		if i < len(keys) {
			return Eq(kt, keys[i])
		}
		return none
	}, false)
	if k < len(keys) {
		return keys[k]
	}
	// a key that is not in the map: pick any such concrete value
	for c := uint64(0); ; c++ {
		cand := BVc(kt.W, c)
		found := false
		for _, t := range keys {
			if t.U == cand.U {
				found = true
			}
		}
		if !found {
			return cand
		}
	}
}

func (in *Interp) newMapIter(m *MapV) *mapIter {
	live := m.live()
	if in.cfg.MapPerm > 0 && len(live) > 1 && len(live) <= in.cfg.MapPerm {
		// fork over all iteration orders (Go leaves the order unspecified)
		order := make([]int, 0, len(live))
		rest := append([]int{}, live...)
		for len(rest) > 1 {
			k := in.chooseN(fmt.Sprintf("$maporder%d", in.nextSeq()), len(rest))
			order = append(order, rest[k])
			rest = append(rest[:k], rest[k+1:]...)
		}
		order = append(order, rest[0])
		return &mapIter{m: m, order: order}
	}
	return &mapIter{m: m, order: live}
}

func (in *Interp) nextSeq() int { in.addrSeq++; return in.addrSeq }

// checkIndex panics (Go panic) when the index may be out of range, then concretises it.
func (in *Interp) checkIndex(it *Term, n int, pos token.Pos) int {
	if it.Const {
		idx := sx(it.W, it.U)
		if idx < 0 || idx >= int64(n) {
			in.goPanicf(pos, "index out of range [%d] with length %d", idx, n)
		}
		return int(idx)
	}
	w := SignExt(it, 64)
	if !in.branch(BVCmp("lt", false, w, BVc(64, uint64(n)))) {
		in.goPanicf(pos, "index out of range [symbolic] with length %d", n)
	}
	return int(in.concretize(it))
}

func (in *Interp) slice(fr *frame, i *ssa.Slice) Value {
	x := in.get(fr, i.X)
	var length, capacity int
	switch xv := x.(type) {
	case StrV:
		length, capacity = len(xv), len(xv)
	case SliceV:
		length, capacity = len(xv.D), cap(xv.D)
	case *Value:
		a := (*xv).(Array)
		length, capacity = len(a), len(a)
	case NilPtr:
		in.goPanicf(i.Pos(), "invalid memory address or nil pointer dereference")
	default:
		in.fail("unsupported", fmt.Sprintf("slice of %T", x))
	}
	lo := BVc(64, 0)
	hi := BVc(64, uint64(length))
	mx := BVc(64, uint64(capacity))
	if i.Low != nil {
		lo = SignExt(in.get(fr, i.Low).(*Term), 64)
	}
	if i.High != nil {
		hi = SignExt(in.get(fr, i.High).(*Term), 64)
	}
	if i.Max != nil {
		mx = SignExt(in.get(fr, i.Max).(*Term), 64)
	}
	// 0 <= lo <= hi <= mx <= cap   (unsigned comparisons catch negatives)
	ok := AndAll(BVCmp("le", false, mx, BVc(64, uint64(capacity))), BVCmp("le", false, hi, mx), BVCmp("le", false, lo, hi))
	if !in.branch(ok) {
		in.goPanicf(i.Pos(), "slice bounds out of range [%s:%s:%s] with capacity %d", trunc(lo.String(), 30), trunc(hi.String(), 30), trunc(mx.String(), 30), capacity)
	}
	l, h, m := int(in.concretize(lo)), int(in.concretize(hi)), int(in.concretize(mx))
	switch xv := x.(type) {
	case StrV:
		return xv[l:h]
	case SliceV:
		if xv.Nil && l == 0 && h == 0 {
			return xv
		}
		return SliceV{D: xv.D[l:h:m]}
	case *Value:
		a := (*xv).(Array)
		return SliceV{D: []Value(a)[l:h:m]}
	}
	return nil
}

func (in *Interp) callValue(fr *frame, fv Value, args []Value, pos token.Pos) Value {
	switch f := fv.(type) {
	case *Closure:
		if f.Has {
			args = append([]Value{f.Recv}, args...)
		}
		return in.call(fr, f.Fn, args, f.Free, pos)
	case *ssa.Builtin:
		return in.builtin(fr, f, args, nil, pos)
	case NilPtr:
		in.goPanicf(pos, "invalid memory address or nil pointer dereference (call of nil func)")
	}
	in.fail("unsupported", fmt.Sprintf("call of %T", fv))
	return nil
}

func (in *Interp) lookupMethod(recvV Value, m *types.Func, pos token.Pos) (*ssa.Function, Value) {
	recv := in.force(recvV)
	if recv.T == nil {
		in.goPanicf(pos, "invalid memory address or nil pointer dereference (method call on nil interface)")
	}
	ms := in.prog.MethodSets.MethodSet(recv.T)
	sel := ms.Lookup(m.Pkg(), m.Name())
	if sel == nil {
		in.fail("unsupported", "method lookup "+m.Name()+" on "+recv.T.String())
	}
	fn := in.prog.MethodValue(sel)
	if fn == nil {
		in.fail("unsupported", "abstract method "+m.Name()+" on "+recv.T.String())
	}
	return fn, recv.V
}

func (in *Interp) doCall(fr *frame, c *ssa.CallCommon, pos token.Pos) Value {
	args := make([]Value, 0, len(c.Args)+1)
	if c.IsInvoke() {
		fn, recv := in.lookupMethod(in.get(fr, c.Value), c.Method, pos)
		args = append(args, recv)
		for _, a := range c.Args {
			args = append(args, in.get(fr, a))
		}
		return in.call(fr, fn, args, nil, pos)
	}
	for _, a := range c.Args {
		args = append(args, in.get(fr, a))
	}
	if b, ok := c.Value.(*ssa.Builtin); ok {
		return in.builtin(fr, b, args, c, pos)
	}
	if fn, ok := c.Value.(*ssa.Function); ok {
		return in.call(fr, fn, args, nil, pos)
	}
	return in.callValue(fr, in.get(fr, c.Value), args, pos)
}

func (in *Interp) appendVals(s SliceV, vals []Value, et types.Type, pos token.Pos) SliceV {
	if len(vals) == 0 {
		return s
	}
	n := len(s.D)
	if n+len(vals) <= cap(s.D) {
		d := s.D[:n+len(vals)]
		for k, v := range vals {
			if in.frozen != nil {
				in.checkFrozen(&d[n+k], v, pos)
			}
			d[n+k] = copyVal(v)
		}
		return SliceV{D: d}
	}
	nc := growCap(cap(s.D), n+len(vals), et)
	d := make([]Value, n+len(vals), nc)
	for k := range s.D {
		d[k] = copyVal(s.D[k])
	}
	for k, v := range vals {
		d[n+k] = copyVal(v)
	}
	return SliceV{D: d}
}

func (in *Interp) builtin(fr *frame, b *ssa.Builtin, args []Value, c *ssa.CallCommon, pos token.Pos) Value {
	switch b.Name() {
	case "append":
		s := args[0].(SliceV)
		var et types.Type = types.Typ[types.Int64]
		if c != nil {
			if st, ok := c.Args[0].Type().Underlying().(*types.Slice); ok {
				et = st.Elem()
			}
		}
		switch e := args[1].(type) {
		case SliceV:
			return in.appendVals(s, e.D, et, pos)
		case StrV:
			vals := make([]Value, len(e))
			for k := range vals {
				vals[k] = BVc(8, uint64(e[k]))
			}
			return in.appendVals(s, vals, et, pos)
		}
	case "len":
		switch x := args[0].(type) {
		case SliceV:
			return BVc(64, uint64(len(x.D)))
		case StrV:
			return BVc(64, uint64(len(x)))
		case *MapV:
			return BVc(64, uint64(x.n))
		case NilPtr:
			return BVc(64, 0)
		case Array:
			return BVc(64, uint64(len(x)))
		case *Value:
			return BVc(64, uint64(len((*x).(Array))))
		case *ChanV:
			return BVc(64, uint64(len(x.buf)))
		}
	case "cap":
		switch x := args[0].(type) {
		case SliceV:
			return BVc(64, uint64(cap(x.D)))
		case Array:
			return BVc(64, uint64(len(x)))
		case *ChanV:
			return BVc(64, uint64(x.cap))
		case NilPtr:
			return BVc(64, 0)
		}
	case "copy":
		d := args[0].(SliceV)
		switch s := args[1].(type) {
		case SliceV:
			n := len(s.D)
			if len(d.D) < n {
				n = len(d.D)
			}
			tmp := make([]Value, n)
			for k := 0; k < n; k++ {
				tmp[k] = copyVal(s.D[k])
			}
			for k := 0; k < n; k++ {
				in.store(&d.D[k], tmp[k], pos)
			}
			return BVc(64, uint64(n))
		case StrV:
			n := len(s)
			if len(d.D) < n {
				n = len(d.D)
			}
			for k := 0; k < n; k++ {
				in.store(&d.D[k], BVc(8, uint64(s[k])), pos)
			}
			return BVc(64, uint64(n))
		}
	case "delete":
		if m, ok := args[0].(*MapV); ok {
			if in.frozenM != nil {
				if why, fz := in.frozenM[m]; fz {
					in.fail("assert", "delete from frozen map ("+why+") at "+in.at(pos))
				}
			}
			m.del(in.mapKey(args[1]))
		}
		return nil
	case "close":
		in.chanClose(fr, args[0], pos)
		return nil
	case "recover":
		// recover() called by a deferred function: the panicking frame is the caller of the deferred call
		if fr != nil && fr.caller != nil && fr.caller.panicking {
			c := fr.caller
			c.panicking = false
			p := c.panicVal
			c.panicVal = nil
			if v, ok := p.val.(*Iface); ok {
				return v
			}
			if l, ok := p.val.(*Lazy); ok {
				return l
			}
			return &Iface{T: types.Typ[types.String], V: StrV(p.msg)}
		}
		return &Iface{}
	case "min", "max":
		r := args[0]
		for _, a := range args[1:] {
			var lt *Term
			switch x := r.(type) {
			case *Term:
				y := a.(*Term)
				if x.Kind == SFP64 {
					in.fail("unsupported", "min/max on floats")
				}
				signed := true
				if c != nil {
					signed = isSigned(c.Args[0].Type())
				}
				lt = BVCmp("lt", signed, y, x)
				if b.Name() == "max" {
					lt = BVCmp("gt", signed, y, x)
				}
				r = Ite(lt, y, x)
			default:
				in.fail("unsupported", "min/max operand")
			}
		}
		return r
	case "print", "println":
		return nil
	case "clear":
		switch x := args[0].(type) {
		case *MapV:
			for _, j := range x.live() {
				x.deleted[j] = true
			}
			x.idx = map[string]int{}
			x.n = 0
			return nil
		}
	}
	in.fail("unsupported", "builtin "+b.Name())
	return nil
}

func (in *Interp) typeAssert(i *ssa.TypeAssert, x Value) Value {
	f := in.force(x)
	var ok bool
	if it, isIface := i.AssertedType.Underlying().(*types.Interface); isIface {
		ok = f.T != nil && types.Implements(f.T, it)
		var val Value = &Iface{}
		if ok {
			val = f
		}
		if i.CommaOk {
			return Tuple{val, Boolc(ok)}
		}
		if !ok {
			in.goPanicf(i.Pos(), "interface conversion: interface is %v, not %s", f.T, i.AssertedType)
		}
		return val
	}
	ok = f.T != nil && types.Identical(f.T, i.AssertedType)
	var val Value
	if ok {
		val = f.V
	} else {
		val = zero(i.AssertedType)
	}
	if i.CommaOk {
		return Tuple{val, Boolc(ok)}
	}
	if !ok {
		in.goPanicf(i.Pos(), "interface conversion: interface {} is %v, not %s", f.T, i.AssertedType)
	}
	return val
}

func isNilConst(v ssa.Value) bool {
	c, ok := v.(*ssa.Const)
	return ok && c.Value == nil
}

func (in *Interp) binop(op token.Token, xt types.Type, x, y Value, pos token.Pos) Value {
	switch a := x.(type) {
	case *Term:
		b := y.(*Term)
		signed := isSigned(xt)
		switch a.Kind {
		case SBool:
			switch op {
			case token.EQL:
				return Eq(a, b)
			case token.NEQ:
				return Not(Eq(a, b))
			}
		case SBV:
			switch op {
			case token.ADD:
				return BVBin("add", signed, a, b)
			case token.SUB:
				return BVBin("sub", signed, a, b)
			case token.MUL:
				return BVBin("mul", signed, a, b)
			case token.QUO, token.REM:
				if in.branch(Eq(b, BVc(b.W, 0))) {
					in.goPanicf(pos, "integer divide by zero")
				}
				if signed && !(a.Const && b.Const) {
					// MinInt / -1 overflows in SMT as in Go (result MinInt, remainder 0): bvsdiv/bvsrem agree
				}
				if op == token.QUO {
					return BVBin("div", signed, a, b)
				}
				return BVBin("rem", signed, a, b)
			case token.AND:
				return BVBin("and", signed, a, b)
			case token.OR:
				return BVBin("or", signed, a, b)
			case token.XOR:
				return BVBin("xor", signed, a, b)
			case token.AND_NOT:
				return BVBin("andnot", signed, a, b)
			case token.SHL, token.SHR:
				return in.shift(op, signed, a, b)
			case token.EQL:
				return Eq(a, b)
			case token.NEQ:
				return Not(Eq(a, b))
			case token.LSS:
				return BVCmp("lt", signed, a, b)
			case token.LEQ:
				return BVCmp("le", signed, a, b)
			case token.GTR:
				return BVCmp("gt", signed, a, b)
			case token.GEQ:
				return BVCmp("ge", signed, a, b)
			}
		case SFP64:
			switch op {
			case token.EQL:
				return FPCmp("eq", a, b)
			case token.NEQ:
				return Not(FPCmp("eq", a, b))
			case token.LSS:
				return FPCmp("lt", a, b)
			case token.LEQ:
				return FPCmp("le", a, b)
			case token.GTR:
				return FPCmp("gt", a, b)
			case token.GEQ:
				return FPCmp("ge", a, b)
			case token.ADD, token.SUB, token.MUL, token.QUO:
				if a.Const && b.Const {
					switch op {
					case token.ADD:
						return FPc(a.F + b.F)
					case token.SUB:
						return FPc(a.F - b.F)
					case token.MUL:
						return FPc(a.F * b.F)
					case token.QUO:
						return FPc(a.F / b.F)
					}
				}
				m := map[token.Token]string{token.ADD: "fp.add RNE", token.SUB: "fp.sub RNE", token.MUL: "fp.mul RNE", token.QUO: "fp.div RNE"}
				return app(SFP64, 0, m[op], a, b)
			}
		}
	case StrV:
		b := y.(StrV)
		switch op {
		case token.EQL:
			return Boolc(a == b)
		case token.NEQ:
			return Boolc(a != b)
		case token.ADD:
			return a + b
		case token.LSS:
			return Boolc(a < b)
		case token.LEQ:
			return Boolc(a <= b)
		case token.GTR:
			return Boolc(a > b)
		case token.GEQ:
			return Boolc(a >= b)
		}
	case *Iface, *Lazy:
		eq := in.ifaceEq(in.force(x), in.force(y), pos)
		if op == token.NEQ {
			return Not(eq)
		}
		return eq
	case *Value, NilPtr, *MapV, *Closure, *ChanV:
		eq := Boolc(in.ptrEq(x, y))
		if op == token.NEQ {
			return Not(eq)
		}
		return eq
	case SliceV:
		eq := Boolc(a.Nil || a.D == nil)
		if op == token.NEQ {
			return Not(eq)
		}
		return eq
	case Struct, Array:
		eq := in.valEq(x, y, pos)
		if op == token.NEQ {
			return Not(eq)
		}
		return eq
	}
	in.fail("unsupported", fmt.Sprintf("binop %s on %T", op, x))
	return nil
}

func (in *Interp) shift(op token.Token, signed bool, a, b *Term) Value {
	// Go: shift counts are unsigned (or non-negative signed); count >= width gives 0 or sign fill
	bb := b
	if bb.W < a.W {
		bb = ZeroExt(b, a.W)
	} else if bb.W > a.W {
		big := BVCmp("ge", false, b, BVc(b.W, uint64(a.W)))
		if in.branch(big) {
			if op == token.SHR && signed {
				if a.Const {
					if sx(a.W, a.U) < 0 {
						return BVc(a.W, ^uint64(0))
					}
					return BVc(a.W, 0)
				}
				return app(SBV, a.W, "bvashr", a, BVc(a.W, uint64(a.W-1)))
			}
			return BVc(a.W, 0)
		}
		bb = Trunc(b, a.W)
	}
	if a.Const && bb.Const {
		if bb.U >= uint64(a.W) {
			if op == token.SHR && signed && sx(a.W, a.U) < 0 {
				return BVc(a.W, ^uint64(0))
			}
			return BVc(a.W, 0)
		}
		if op == token.SHL {
			return BVc(a.W, a.U<<bb.U)
		}
		if signed {
			return BVc(a.W, uint64(sx(a.W, a.U)>>bb.U))
		}
		return BVc(a.W, a.U>>bb.U)
	}
	// SMT shifts already yield 0 / sign fill for counts >= width
	if op == token.SHL {
		return app(SBV, a.W, "bvshl", a, bb)
	}
	if signed {
		return app(SBV, a.W, "bvashr", a, bb)
	}
	return app(SBV, a.W, "bvlshr", a, bb)
}

func (in *Interp) ptrEq(x, y Value) bool {
	_, xn := x.(NilPtr)
	_, yn := y.(NilPtr)
	if xn || yn {
		return xn && yn
	}
	switch a := x.(type) {
	case *Value:
		b, ok := y.(*Value)
		return ok && a == b
	case *MapV:
		b, ok := y.(*MapV)
		return ok && a == b
	case *ChanV:
		b, ok := y.(*ChanV)
		return ok && a == b
	case *Closure:
		in.fail("unsupported", "comparison of func values")
	}
	in.fail("unsupported", fmt.Sprintf("ptrEq %T", x))
	return false
}

func (in *Interp) ifaceEq(a, b *Iface, pos token.Pos) *Term {
	if a.T == nil || b.T == nil {
		return Boolc(a.T == nil && b.T == nil)
	}
	if !types.Identical(a.T, b.T) {
		return Boolc(false)
	}
	if !types.Comparable(a.T) {
		in.goPanicf(pos, "comparing uncomparable type %s", a.T)
	}
	return in.valEq(a.V, b.V, pos)
}

func (in *Interp) valEq(av, bv Value, pos token.Pos) *Term {
	switch av := av.(type) {
	case *Term:
		bt := bv.(*Term)
		if av.Kind == SFP64 {
			return FPCmp("eq", av, bt)
		}
		return Eq(av, bt)
	case StrV:
		return Boolc(av == bv.(StrV))
	case Struct:
		r := Boolc(true)
		bs, ok := bv.(Struct)
		if !ok {
			in.fail("unsupported", fmt.Sprintf("comparison of a struct with %T at %s", bv, in.at(pos)))
		}
		for i := range av {
			r = And(r, in.valEq(av[i], bs[i], pos))
		}
		return r
	case Array:
		r := Boolc(true)
		bs := bv.(Array)
		for i := range av {
			r = And(r, in.valEq(av[i], bs[i], pos))
		}
		return r
	case *Value, NilPtr, *MapV, *ChanV:
		return Boolc(in.ptrEq(av, bv))
	case *Iface, *Lazy:
		return in.ifaceEq(in.force(av), in.force(bv), pos)
	}
	in.fail("unsupported", fmt.Sprintf("valEq %T", av))
	return nil
}

func (in *Interp) convert(from, to types.Type, x Value, pos token.Pos) Value {
	fb, _ := from.Underlying().(*types.Basic)
	tb, _ := to.Underlying().(*types.Basic)
	if fb != nil && tb != nil {
		if t, ok := x.(*Term); ok {
			switch {
			case fb.Info()&types.IsInteger != 0 && tb.Info()&types.IsInteger != 0:
				fw, tw := intWidth(fb), intWidth(tb)
				if tw <= fw {
					return Trunc(t, tw)
				}
				if isSigned(from) {
					return SignExt(t, tw)
				}
				return ZeroExt(t, tw)
			case fb.Info()&types.IsInteger != 0 && tb.Kind() == types.Float64:
				return IntToFP(t, isSigned(from))
			case fb.Kind() == types.Float64 && tb.Info()&types.IsInteger != 0:
				if tb.Info()&types.IsUnsigned != 0 && intWidth(tb) == 64 {
					return FPToUint64(t)
				}
				r := FPToInt(t, 64)
				return Trunc(r, intWidth(tb))
			case fb.Kind() == types.Float64 && tb.Kind() == types.Float64:
				return t
			case fb.Info()&types.IsInteger != 0 && tb.Info()&types.IsString != 0:
				if t.Const {
					return StrV(string(rune(t.U)))
				}
			}
		}
		if s, ok := x.(StrV); ok && tb.Info()&types.IsString != 0 {
			return s
		}
	}
	if s, ok := x.(StrV); ok {
		if st, isSl := to.Underlying().(*types.Slice); isSl {
			if eb, ok := st.Elem().Underlying().(*types.Basic); ok && eb.Kind() == types.Int32 {
				rs := []rune(string(s))
				d := make([]Value, len(rs))
				for k := range d {
					d[k] = BVc(32, uint64(rs[k]))
				}
				return SliceV{D: d}
			}
			d := make([]Value, len(s))
			for k := range d {
				d[k] = BVc(8, uint64(s[k]))
			}
			return SliceV{D: d}
		}
	}
	if s, ok := x.(SliceV); ok && tb != nil && tb.Info()&types.IsString != 0 {
		bs := make([]byte, len(s.D))
		for k := range bs {
			t := s.D[k].(*Term)
			if !t.Const {
				in.fail("unsupported", "string(symbolic bytes)")
			}
			bs[k] = byte(t.U)
		}
		return StrV(bs)
	}
	if _, ok := to.Underlying().(*types.Pointer); ok {
		return x
	}
	if tb != nil && tb.Kind() == types.UnsafePointer {
		return x
	}
	if fb != nil && fb.Kind() == types.UnsafePointer && tb != nil && tb.Kind() == types.Uintptr {
		return in.addrOf(x)
	}
	if _, ok := to.Underlying().(*types.Slice); ok {
		if _, ok := x.(SliceV); ok {
			return x
		}
	}
	in.fail("unsupported", "convert "+from.String()+"->"+to.String())
	return nil
}

// FPToUint64 mirrors amd64 float64->uint64 conversion for in-range values; out of range is
// implementation-specific in Go, we model the amd64 result for values < 2^63 only.
func FPToUint64(a *Term) *Term {
	if a.Const {
		return BVc(64, uint64(a.F))
	}
	lim := FPc(9223372036854775808.0)
	small := And(FPCmp("ge", a, FPc(0)), FPCmp("lt", a, lim))
	big := And(FPCmp("ge", a, lim), FPCmp("lt", a, FPc(18446744073709551616.0)))
	return Ite(small, app(SBV, 64, "(_ fp.to_ubv 64) RTZ", a),
		Ite(big, app(SBV, 64, "(_ fp.to_ubv 64) RTZ", a), BVc(64, uint64(1)<<63)))
}

// symbolic, pairwise distinct, non-zero addresses: properties hold for every memory layout
func (in *Interp) addrOf(x Value) *Term {
	p, ok := x.(*Value)
	if !ok {
		return BVc(64, 0)
	}
	if t, ok := in.addrs[p]; ok {
		return t
	}
	t := in.fresh(fmt.Sprintf("$addr%d", len(in.addrs)+1), SBV, 64)
	in.assume(Not(Eq(t, BVc(64, 0))))
	for _, o := range in.addrs {
		in.assume(Not(Eq(t, o)))
	}
	in.addrs[p] = t
	return t
}
