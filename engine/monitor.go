package gosym

import (
	"go/token"
)

// walk visits every heap slot, map and lazy value reachable from v.
type walker struct {
	slot  func(p *Value) bool // return false to stop descending (already seen)
	mp    func(m *MapV) bool
	lazy  func(l *Lazy)
	seenS map[*Value]bool
	seenM map[*MapV]bool
	seenI map[*Iface]bool
}

func newWalker() *walker {
	return &walker{seenS: map[*Value]bool{}, seenM: map[*MapV]bool{}, seenI: map[*Iface]bool{}}
}

func (w *walker) walkSlot(p *Value) {
	if w.seenS[p] {
		return
	}
	w.seenS[p] = true
	if w.slot != nil {
		w.slot(p)
	}
	switch x := (*p).(type) {
	case Struct:
		for i := range x {
			w.walkSlot(&x[i])
		}
	case Array:
		for i := range x {
			w.walkSlot(&x[i])
		}
	default:
		w.walk(*p)
	}
}

func (w *walker) walk(v Value) {
	switch x := v.(type) {
	case *Value:
		w.walkSlot(x)
	case Struct:
		for i := range x {
			w.walk(x[i])
		}
	case Array:
		for i := range x {
			w.walk(x[i])
		}
	case SliceV:
		for i := range x.D {
			w.walkSlot(&x.D[i])
		}
	case *Iface:
		if x.T != nil && !w.seenI[x] {
			w.seenI[x] = true
			w.walk(x.V)
		}
	case *Lazy:
		if x.Forced != nil {
			w.walk(x.Forced)
		} else if w.lazy != nil {
			w.lazy(x)
		}
	case *MapV:
		if w.seenM[x] {
			return
		}
		w.seenM[x] = true
		if w.mp != nil {
			w.mp(x)
		}
		for _, j := range x.live() {
			w.walk(x.keys[j])
			w.walkSlot(x.vals[j])
		}
	case *Closure:
		for _, f := range x.Free {
			w.walk(f)
		}
		if x.Has {
			w.walk(x.Recv)
		}
	case Tuple:
		for _, e := range x {
			w.walk(e)
		}
	}
}

// freezeValue marks everything reachable from v as immutable: any later store into it is a violation.
func (in *Interp) freezeValue(v Value, why string) {
	if in.frozen == nil {
		in.frozen = map[*Value]string{}
		in.frozenM = map[*MapV]string{}
	}
	w := newWalker()
	w.slot = func(p *Value) bool { in.frozen[p] = why; return true }
	w.mp = func(m *MapV) bool { in.frozenM[m] = why; return true }
	w.lazy = func(l *Lazy) { l.frozen = why }
	w.walk(v)
}

func (in *Interp) unfreezeAll() {
	in.frozen = nil
	in.frozenM = nil
}

func sameValue(a, b Value) bool {
	switch x := a.(type) {
	case *Term:
		y, ok := b.(*Term)
		return ok && (x == y || x.String() == y.String())
	case StrV:
		y, ok := b.(StrV)
		return ok && x == y
	case *Value:
		y, ok := b.(*Value)
		return ok && x == y
	case NilPtr:
		_, ok := b.(NilPtr)
		return ok
	case *Iface:
		y, ok := b.(*Iface)
		if !ok {
			return false
		}
		if x == y {
			return true
		}
		if x.T == nil || y.T == nil {
			return x.T == nil && y.T == nil
		}
		return x.T == y.T && sameValue(x.V, y.V)
	case *Lazy:
		y, ok := b.(*Lazy)
		return ok && x == y
	case SliceV:
		y, ok := b.(SliceV)
		if !ok || len(x.D) != len(y.D) {
			return false
		}
		if len(x.D) == 0 {
			return x.Nil == y.Nil
		}
		return &x.D[0] == &y.D[0] && cap(x.D) == cap(y.D)
	case *MapV:
		y, ok := b.(*MapV)
		return ok && x == y
	case Struct:
		y, ok := b.(Struct)
		if !ok || len(x) != len(y) {
			return false
		}
		for i := range x {
			if !sameValue(x[i], y[i]) {
				return false
			}
		}
		return true
	case Array:
		y, ok := b.(Array)
		if !ok || len(x) != len(y) {
			return false
		}
		for i := range x {
			if !sameValue(x[i], y[i]) {
				return false
			}
		}
		return true
	}
	return false
}

func (in *Interp) checkFrozen(p *Value, v Value, pos token.Pos) {
	if in.freezeExempt > 0 {
		return
	}
	why, fz := in.frozen[p]
	if !fz {
		// storing a struct into a slot writes its fields: check them too
		if st, ok := (*p).(Struct); ok {
			if nv, ok := v.(Struct); ok && len(nv) == len(st) {
				for i := range st {
					in.checkFrozen(&st[i], nv[i], pos)
				}
			}
		}
		return
	}
	if sameValue(*p, v) {
		return
	}
	in.fail("assert", "write into frozen memory ("+why+") at "+in.at(pos)+": "+trunc(in.show(*p), 60)+" -> "+trunc(in.show(v), 60))
}

// shares reports whether a and b reach a common mutable heap slot or map.
func (in *Interp) shares(a, b Value) (bool, string) {
	wa := newWalker()
	wa.walk(a)
	found := ""
	wb := newWalker()
	wb.slot = func(p *Value) bool {
		if wa.seenS[p] && found == "" {
			found = "slot holding " + trunc(in.show(*p), 80)
		}
		return true
	}
	wb.mp = func(m *MapV) bool {
		if wa.seenM[m] && found == "" {
			found = "map"
		}
		return true
	}
	wb.walk(b)
	return found != "", found
}
