package gosym

import (
	"fmt"
	"go/types"
	"strings"

	"golang.org/x/tools/go/ssa"
)

// Tag bits of the symbolic BSON domain (must match harness/vf/vf.go).
const (
	TNull = 1 << iota
	TInt32
	TInt64
	TDouble
	TString
	TBool
	TDate
	TTimestamp
	TObjectID
	TBinary
	TRegex
	TArray
	TDoc
	TMissing
	TFlatArr // modifier: elements of arrays are never arrays themselves
)

var tagNames = []string{"null", "int32", "int64", "double", "string", "bool", "date", "timestamp", "objectid", "binary", "regex", "array", "doc", "missing"}

type typeCache struct {
	prog     *ssa.Program
	m        map[string]types.Type
	rtErr    types.Type
	errIface types.Type
}

func newTypeCache(prog *ssa.Program) *typeCache {
	tc := &typeCache{prog: prog, m: map[string]types.Type{}}
	tc.errIface = types.Universe.Lookup("error").Type()
	return tc
}

func (tc *typeCache) named(pkg, name string) types.Type {
	k := pkg + "." + name
	if t, ok := tc.m[k]; ok {
		return t
	}
	for _, p := range tc.prog.AllPackages() {
		if p.Pkg.Path() == pkg {
			if m := p.Type(name); m != nil {
				t := types.Unalias(m.Type())
				tc.m[k] = t
				return t
			}
		}
	}
	panic("type not found: " + k)
}

const primPkg = "go.mongodb.org/mongo-driver/bson/primitive"
const bsonkitPkg = "github.com/256dpi/lungo/bsonkit"

func (tc *typeCache) runtimeError() types.Type {
	// runtime errors are represented as a string-typed panic value implementing nothing;
	// harness code only ever recovers and prints them.
	return types.Typ[types.String]
}

func tagList(tags uint32, depth int) []int {
	var r []int
	for i := range tagNames {
		if tags&(1<<uint(i)) == 0 {
			continue
		}
		if depth <= 0 && (1<<uint(i) == TArray || 1<<uint(i) == TDoc) {
			continue
		}
		r = append(r, i)
	}
	return r
}

func (in *Interp) force(v Value) *Iface {
	switch v := v.(type) {
	case *Iface:
		return v
	case *Lazy:
		if v.Forced != nil {
			return v.Forced
		}
		if v.CopyOf != nil {
			src := in.force(v.CopyOf)
			if v.Forced == nil { // may have been forced as a dependent of the source
				in.forceCopy(v, src)
			}
			return v.Forced
		}
		tl := tagList(v.Tags, v.Depth)
		if len(tl) == 0 {
			in.fail("infeasible", "empty tag set for "+v.ID)
		}
		k := in.chooseN(v.ID+".tag", len(tl))
		v.Forced = in.materialize(v, tl[k])
		if v.frozen != "" {
			in.freezeValue(v.Forced, v.frozen)
		}
		// copies taken while this value was still lazy are made now, before anybody can mutate it
		for _, d := range v.deps {
			if d.Forced == nil {
				in.forceCopy(d, v.Forced)
			}
		}
		v.deps = nil
		return v.Forced
	}
	panic(fmt.Sprintf("force %T", v))
}

func (in *Interp) child(parent *Lazy, id string) *Lazy {
	return &Lazy{ID: id, Tags: childTags(parent.Tags), Depth: parent.Depth - 1, Keys: parent.Keys, MaxLen: parent.MaxLen}
}

func (in *Interp) materialize(l *Lazy, tag int) *Iface {
	id := l.ID
	tc := in.tcache
	switch 1 << uint(tag) {
	case TNull:
		return &Iface{}
	case TInt32:
		return &Iface{T: types.Typ[types.Int32], V: in.fresh(id+".i32", SBV, 32)}
	case TInt64:
		return &Iface{T: types.Typ[types.Int64], V: in.fresh(id+".i64", SBV, 64)}
	case TDouble:
		return &Iface{T: types.Typ[types.Float64], V: in.fresh(id+".f64", SFP64, 0)}
	case TBool:
		return &Iface{T: types.Typ[types.Bool], V: in.fresh(id+".b", SBool, 0)}
	case TDate:
		return &Iface{T: tc.named(primPkg, "DateTime"), V: in.fresh(id+".dt", SBV, 64)}
	case TString:
		pool := in.cfg.StrPool
		return &Iface{T: types.Typ[types.String], V: StrV(pool[in.chooseN(id+".s", len(pool))])}
	case TTimestamp:
		return &Iface{T: tc.named(primPkg, "Timestamp"), V: Struct{in.fresh(id+".tsT", SBV, 32), in.fresh(id+".tsI", SBV, 32)}}
	case TObjectID:
		a := make(Array, 12)
		// 12 symbolic bytes would multiply solver work; the first and last byte are symbolic, the rest zero
		for i := range a {
			a[i] = BVc(8, 0)
		}
		a[0] = in.fresh(id+".oid0", SBV, 8)
		a[11] = in.fresh(id+".oid11", SBV, 8)
		return &Iface{T: tc.named(primPkg, "ObjectID"), V: a}
	case TBinary:
		n := in.chooseN(id+".binlen", 3)
		d := make([]Value, n)
		for i := range d {
			d[i] = in.fresh(fmt.Sprintf("%s.bin%d", id, i), SBV, 8)
		}
		sl := SliceV{D: d}
		if n == 0 {
			sl = SliceV{D: []Value{}}
		}
		return &Iface{T: tc.named(primPkg, "Binary"), V: Struct{in.fresh(id+".binsub", SBV, 8), sl}}
	case TRegex:
		pool := []string{"a", "b"}
		p := pool[in.chooseN(id+".rxp", 2)]
		o := []string{"", "i"}[in.chooseN(id+".rxo", 2)]
		return &Iface{T: tc.named(primPkg, "Regex"), V: Struct{StrV(p), StrV(o)}}
	case TMissing:
		return &Iface{T: tc.named(bsonkitPkg, "MissingType"), V: Struct{}}
	case TArray:
		n := in.chooseN(id+".len", l.MaxLen+1)
		d := make([]Value, n)
		for i := range d {
			c := in.child(l, fmt.Sprintf("%s[%d]", id, i))
			if l.Tags&TFlatArr != 0 {
				c.Tags &^= TArray
			}
			d[i] = c
		}
		if n == 0 {
			return &Iface{T: tc.named(primPkg, "A"), V: SliceV{D: []Value{}}}
		}
		return &Iface{T: tc.named(primPkg, "A"), V: SliceV{D: d}}
	case TDoc:
		return &Iface{T: tc.named(primPkg, "D"), V: in.mkDoc(l)}
	}
	panic("tag")
}

// mkDoc builds a document with a symbolic number (<= MaxLen) of fields with pairwise distinct
// keys from the key pool and lazily typed values.
func (in *Interp) mkDoc(l *Lazy) SliceV {
	maxLen := l.MaxLen
	if maxLen > len(l.Keys) {
		maxLen = len(l.Keys)
	}
	n := in.chooseN(l.ID+".len", maxLen+1)
	d := make([]Value, n)
	rest := append([]string{}, l.Keys...)
	for i := range d {
		k := in.chooseN(fmt.Sprintf("%s.k%d", l.ID, i), len(rest))
		key := rest[k]
		rest = append(rest[:k], rest[k+1:]...)
		c := in.child(l, l.ID+"."+key)
		if l.topDoc {
			// fields of a top-level vf.Doc use the top-level tag mask
			c.Tags = l.Tags &^ TMissing
		}
		d[i] = Struct{StrV(key), c}
	}
	if n == 0 {
		return SliceV{D: []Value{}}
	}
	return SliceV{D: d}
}

func splitCSV(s string) []string {
	if s == "" {
		return nil
	}
	return strings.Split(s, ",")
}

func (in *Interp) forceCopy(c *Lazy, src *Iface) {
	if c.Via != nil {
		r := in.callValue(nil, c.Via, []Value{src}, 0)
		if t, ok := r.(Tuple); ok {
			r = t[0]
		}
		c.Forced = in.force(r)
	} else {
		c.Forced = in.deepCopy(src).(*Iface)
	}
	if c.frozen != "" {
		in.freezeValue(c.Forced, c.frozen)
	}
	for _, d := range c.deps {
		if d.Forced == nil {
			in.forceCopy(d, c.Forced)
		}
	}
	c.deps = nil
}

// lazyCopy returns a lazy value that becomes a copy of l (through via, or structurally) when forced.
func (in *Interp) lazyCopy(l *Lazy, via *Closure) Value {
	if l.Forced != nil {
		if via != nil {
			return in.callValue(nil, via, []Value{l.Forced}, 0)
		}
		return in.deepCopy(l.Forced)
	}
	c := &Lazy{ID: l.ID + "'", Tags: l.Tags, Depth: l.Depth, Keys: l.Keys, MaxLen: l.MaxLen, CopyOf: l, Via: via}
	l.deps = append(l.deps, c)
	return c
}

// childTags: bits 16..30 of a tag mask, when set, are the tag mask of nested values (vf.Child).
func childTags(tags uint32) uint32 {
	if hi := tags >> 16; hi != 0 {
		return (hi | hi<<16) &^ TMissing
	}
	return tags &^ TMissing
}

func lazyRoot(l *Lazy) *Lazy {
	for l.CopyOf != nil && l.Forced == nil {
		l = l.CopyOf
	}
	return l
}
