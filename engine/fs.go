package gosym

import (
	"go/token"

	"golang.org/x/tools/go/ssa"
)

type fsModel struct{}

func (in *Interp) osCall(fr *frame, fn *ssa.Function, full string, args []Value, pos token.Pos) (Value, bool) {
	return nil, false
}

func (in *Interp) crashPoint(fr *frame, id string, pos token.Pos) Value {
	in.fail("unsupported", "vf.CrashPoint")
	return nil
}

func (in *Interp) fsCall(fr *frame, args []Value, pos token.Pos) Value {
	in.fail("unsupported", "vf.FS")
	return nil
}
