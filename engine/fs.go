package gosym

import (
	"fmt"
	"go/token"
	"go/types"
	"path/filepath"
	"strconv"
	"strings"

	"golang.org/x/tools/go/ssa"
)

// Symbolic file system (DESIGN.md section 3.6): a POSIX-style model of what a crash or power loss may
// leave behind. It is the trusted part of C05.
//
//   - an inode has volatile content (what a reader sees now) and durable content (what is on the
//     medium); write changes the volatile content, fsync(file) makes it durable;
//   - a directory has a volatile and a durable name->inode map; create/remove/rename change the
//     volatile map, fsync(dir) makes it durable;
//   - at a crash every name resolves, by symbolic choice, through the durable or the volatile map (the
//     kernel may or may not have written the directory back) and every inode holds, by symbolic choice,
//     its durable content, its volatile content, or - when they differ - a torn mixture ("partial");
//   - every call may fail (symbolic fault) without effect; a failing write may leave partial content;
//   - the crash point is a symbolic choice before each call ("the last call that completed").
//
// Content is abstract: 0 = empty, 1 = old image, 2 = new image, 3 = partial/torn.
const (
	fsEmpty = iota
	fsOld
	fsNew
	fsPartial
	fsAbsent = -1
)

type fsInode struct {
	id  int
	vol int
	dur int
}

type fsFile struct {
	ino    *fsInode
	closed bool
	isDir  bool
	name   string
}

type fsModel struct {
	vol       map[string]*fsInode
	dur       map[string]*fsInode
	files     []*fsFile
	step      int
	crashed   bool
	faultSeq  int
	inoSeq    int
	armed     bool // crash / fault injection enabled
	faults    int
	maxFaults int
	trace     []string
	writeCode int // content code the next write produces (0: fsNew); set by vf.FS("image:<n>", "")
}

type crashPanic struct{}

func (in *Interp) fs() *fsModel {
	if in.env.fs == nil {
		in.env.fs = &fsModel{vol: map[string]*fsInode{}, dur: map[string]*fsInode{}, maxFaults: 1}
	}
	return in.env.fs
}

// point is called before every file-system call: the process may die here, or the call may fail.
func (in *Interp) fsPoint(name string) (fail bool) {
	m := in.fs()
	m.step++
	m.trace = append(m.trace, name)
	if !m.armed {
		return false
	}
	if in.chooseN(fmt.Sprintf("$crash%d", m.step), 2) == 1 {
		m.crashed = true
		m.trace = append(m.trace, "CRASH")
		panic(crashPanic{})
	}
	if m.faults < m.maxFaults && in.chooseN(fmt.Sprintf("$fault%d", m.step), 2) == 1 {
		m.faults++
		m.trace = append(m.trace, "FAULT")
		return true
	}
	return false
}

func (in *Interp) fsErr(msg string, notExist bool) Value {
	e := in.mkError(msg)
	if notExist {
		in.ghost["notexist:"+fmt.Sprintf("%p", in.force(e).V)] = Boolc(true)
	}
	return e
}

func (in *Interp) newFile(f *fsFile, t ssa.Value) Value {
	m := in.fs()
	m.files = append(m.files, f)
	// *os.File is represented as a pointer to a struct holding the handle index
	var v Value = Struct{ci(len(m.files) - 1)}
	return &v
}

func (in *Interp) fileOf(v Value, pos token.Pos) *fsFile {
	p, ok := v.(*Value)
	if !ok {
		in.goPanicf(pos, "invalid memory address or nil pointer dereference (nil *os.File)")
	}
	st := (*p).(Struct)
	return in.fs().files[int(st[0].(*Term).U)]
}

func (in *Interp) osCall(fr *frame, fn *ssa.Function, full string, args []Value, pos token.Pos) (Value, bool) {
	m := in.fs()
	switch full {
	case "path/filepath.Dir":
		return StrV(filepath.Dir(str(args[0]))), true
	case "path/filepath.Join":
		return StrV(filepath.Join(in.strSlice(args[0])...)), true
	case "os.IsNotExist":
		e := in.force(args[0])
		if e.T == nil {
			return Boolc(false), true
		}
		_, ok := in.ghost["notexist:"+fmt.Sprintf("%p", e.V)]
		return Boolc(ok), true
	case "os.Remove":
		name := str(args[0])
		if in.fsPoint("remove " + name) {
			return in.fsErr("remove "+name+": injected fault", false), true
		}
		if _, ok := m.vol[name]; !ok {
			return in.fsErr("remove "+name+": no such file or directory", true), true
		}
		delete(m.vol, name)
		return &Iface{}, true
	case "os.OpenFile", "os.Open", "os.Create":
		name := str(args[0])
		flags := 0
		if full == "os.OpenFile" {
			flags = in.cint(args[1])
		}
		if in.fsPoint("open " + name) {
			return Tuple{NilPtr{}, in.fsErr("open "+name+": injected fault", false)}, true
		}
		const oCreate, oExcl = 0x40, 0x80
		if strings.HasSuffix(name, "/") || name == "." || m.isDir(name) {
			return Tuple{in.newFile(&fsFile{isDir: true, name: name}, nil), &Iface{}}, true
		}
		ino, exists := m.vol[name]
		if exists && flags&oCreate != 0 && flags&oExcl != 0 {
			return Tuple{NilPtr{}, in.fsErr("open "+name+": file exists", false)}, true
		}
		if !exists {
			if flags&oCreate == 0 && full != "os.Create" {
				return Tuple{NilPtr{}, in.fsErr("open "+name+": no such file or directory", true)}, true
			}
			m.inoSeq++
			ino = &fsInode{id: m.inoSeq, vol: fsEmpty, dur: fsEmpty}
			m.vol[name] = ino
		}
		return Tuple{in.newFile(&fsFile{ino: ino, name: name}, nil), &Iface{}}, true
	case "(*os.File).Close":
		f := in.fileOf(args[0], pos)
		if f.closed {
			return in.fsErr("close: file already closed", false), true
		}
		if in.fsPoint("close " + f.name) {
			f.closed = true
			return in.fsErr("close: injected fault", false), true
		}
		f.closed = true
		return &Iface{}, true
	case "(*os.File).Sync":
		f := in.fileOf(args[0], pos)
		if in.fsPoint("fsync " + f.name) {
			return in.fsErr("fsync: injected fault", false), true
		}
		if f.closed {
			return in.fsErr("fsync: file already closed", false), true
		}
		if f.isDir {
			m.dur = map[string]*fsInode{}
			for k, v := range m.vol {
				m.dur[k] = v
			}
		} else {
			f.ino.dur = f.ino.vol
		}
		return &Iface{}, true
	case "io.Copy":
		// writing the new image into an *os.File
		dst := in.force(args[0])
		p, ok := dst.V.(*Value)
		if !ok {
			return nil, false
		}
		st, ok := (*p).(Struct)
		if !ok || len(st) != 1 {
			return nil, false
		}
		f := in.fileOf(p, pos)
		// a crash in the middle of the write leaves a torn file
		if m.armed && in.chooseN(fmt.Sprintf("$crashw%d", m.step+1), 2) == 1 {
			f.ino.vol = fsPartial
			m.crashed = true
			m.trace = append(m.trace, "write "+f.name, "CRASH(mid-write)")
			panic(crashPanic{})
		}
		if in.fsPoint("write " + f.name) {
			f.ino.vol = fsPartial
			return Tuple{ci(0), in.fsErr("write: injected fault", false)}, true
		}
		if f.closed {
			return Tuple{ci(0), in.fsErr("write: file already closed", false)}, true
		}
		if m.writeCode != 0 {
			f.ino.vol = m.writeCode
		} else {
			f.ino.vol = fsNew
		}
		return Tuple{ci(1), &Iface{}}, true
	case "os.Rename":
		from, to := str(args[0]), str(args[1])
		if in.fsPoint("rename " + from + " " + to) {
			return in.fsErr("rename: injected fault", false), true
		}
		ino, ok := m.vol[from]
		if !ok {
			return in.fsErr("rename "+from+": no such file or directory", true), true
		}
		m.vol[to] = ino
		delete(m.vol, from)
		return &Iface{}, true
	case "os.Stat", "os.Lstat":
		name := str(args[0])
		if in.fsPoint("stat " + name) {
			return Tuple{&Iface{}, in.fsErr("stat "+name+": injected fault", false)}, true
		}
		if _, ok := m.vol[name]; !ok && !m.isDir(name) {
			return Tuple{&Iface{}, in.fsErr("stat "+name+": no such file or directory", true)}, true
		}
		var st Value = zero(in.tcache.named("os", "fileStat"))
		return Tuple{&Iface{T: types.NewPointer(in.tcache.named("os", "fileStat")), V: &st}, &Iface{}}, true
	case "os.ReadFile":
		in.fail("unsupported", "os.ReadFile (use vf.FS to inspect the model)")
	}
	return nil, false
}

func (m *fsModel) isDir(name string) bool {
	for k := range m.vol {
		if filepath.Dir(k) == name {
			return true
		}
	}
	for k := range m.dur {
		if filepath.Dir(k) == name {
			return true
		}
	}
	return false
}

// crashPoint implements vf.RunUntilCrash(f): runs f with crash and fault injection armed; returns
// true when the process "died" inside f (no deferred call of the dying frames runs).
func (in *Interp) crashPoint(fr *frame, id string, pos token.Pos) Value {
	in.fail("unsupported", "vf.CrashPoint")
	return nil
}

func (in *Interp) runUntilCrash(fr *frame, f Value, pos token.Pos) (res Value) {
	m := in.fs()
	m.armed = true
	depth := in.depth
	defer func() {
		m.armed = false
		if r := recover(); r != nil {
			if _, ok := r.(crashPanic); !ok {
				panic(r)
			}
			in.depth = depth
			res = Boolc(true)
		}
	}()
	in.callValue(fr, f, nil, pos)
	return Boolc(false)
}

// fsCall implements vf.FS(op, path) int:
//
//	"seed-old"   path now holds the old image, durably
//	"seed-stale" path now holds a stale partial file, durably (left over from an earlier crash)
//	"content"    volatile content code of path (-1: absent)
//	"after-crash" content code of path as found after a crash / power loss (symbolic choices)
//	"steps"      number of file-system calls made so far
//	"image:<n>"  the following writes produce content code n (n >= 4)
func (in *Interp) fsCall(fr *frame, args []Value, pos token.Pos) Value {
	m := in.fs()
	op, name := str(args[0]), str(args[1])
	if strings.HasPrefix(op, "image:") {
		// the following writes produce content code n (>= 4: further images of a sequence of commits)
		n, err := strconv.Atoi(op[len("image:"):])
		if err != nil || n < 4 {
			in.fail("unsupported", "vf.FS "+op)
		}
		m.writeCode = n
		return ci(0)
	}
	switch op {
	case "seed-old", "seed-stale":
		m.inoSeq++
		c := fsOld
		if op == "seed-stale" {
			c = fsPartial
		}
		ino := &fsInode{id: m.inoSeq, vol: c, dur: c}
		m.vol[name] = ino
		m.dur[name] = ino
		return ci(0)
	case "content":
		if ino, ok := m.vol[name]; ok {
			return ci(ino.vol)
		}
		return ci(fsAbsent)
	case "steps":
		return ci(m.step)
	case "after-crash":
		// which directory view survived
		vi, vok := m.vol[name]
		di, dok := m.dur[name]
		ino, ok := di, dok
		if vok != dok || vi != di {
			if in.chooseN("$dirflushed:"+name, 2) == 1 {
				ino, ok = vi, vok
			}
		}
		if !ok {
			return ci(fsAbsent)
		}
		if ino.vol == ino.dur {
			return ci(ino.dur)
		}
		switch in.chooseN(fmt.Sprintf("$dataflushed:%d", ino.id), 3) {
		case 0:
			return ci(ino.dur)
		case 1:
			return ci(ino.vol)
		}
		return ci(fsPartial)
	}
	in.fail("unsupported", "vf.FS "+op)
	return nil
}
