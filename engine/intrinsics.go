package gosym

import (
	"fmt"
	"go/token"
	"go/types"
	"math"
	"strconv"
	"strings"
	"unicode/utf8"

	"golang.org/x/tools/go/ssa"
)

func str(v Value) string { return string(v.(StrV)) }

func (in *Interp) mkError(msg string) Value {
	if in.errNew == nil {
		in.errNew = in.prog.ImportedPackage("errors").Func("New")
	}
	return in.call(nil, in.errNew, []Value{StrV(msg)}, nil, token.NoPos)
}

func ci(n int) *Term { return BVc(64, uint64(int64(n))) }

func (in *Interp) strSlice(v Value) []string {
	s := v.(SliceV)
	r := make([]string, len(s.D))
	for i := range s.D {
		r[i] = str(s.D[i])
	}
	return r
}

func (in *Interp) byteTerms(v Value) []*Term {
	switch s := v.(type) {
	case SliceV:
		r := make([]*Term, len(s.D))
		for i := range s.D {
			r[i] = s.D[i].(*Term)
		}
		return r
	case StrV:
		r := make([]*Term, len(s))
		for i := range r {
			r[i] = BVc(8, uint64(s[i]))
		}
		return r
	}
	panic("byteTerms")
}

// bytesCompare returns a 64-bit term in {-1,0,1}: lexicographic comparison of byte sequences.
func bytesCompare(a, b []*Term) *Term {
	n := len(a)
	if len(b) < n {
		n = len(b)
	}
	var tail *Term
	switch {
	case len(a) < len(b):
		tail = ci(-1)
	case len(a) > len(b):
		tail = ci(1)
	default:
		tail = ci(0)
	}
	r := tail
	for i := n - 1; i >= 0; i-- {
		r = Ite(BVCmp("lt", false, a[i], b[i]), ci(-1), Ite(BVCmp("gt", false, a[i], b[i]), ci(1), r))
	}
	return r
}

func (in *Interp) isVF(fn *ssa.Function) bool {
	return fn.Pkg != nil && strings.HasSuffix(fn.Pkg.Pkg.Path(), "/internal/vf")
}

func (in *Interp) intrinsic(fr *frame, fn *ssa.Function, args []Value, pos token.Pos) (Value, bool) {
	if fn.Pkg == nil && fn.Synthetic != "" && fn.Blocks != nil {
		return nil, false // wrappers, bound methods, instantiations: execute
	}
	if fn.Name() == "init" && fn.Pkg != nil && fn.Signature.Recv() == nil && fn.Synthetic == "package initializer" {
		if !in.runsInit(fn.Pkg.Pkg.Path()) {
			return nil, true
		}
		return nil, false
	}
	if in.isVF(fn) {
		return in.vfCall(fr, fn, args, pos), true
	}
	full := fn.String()
	if fn.Pkg != nil {
		switch fn.Pkg.Pkg.Path() {
		case "sync":
			return in.syncCall(fr, fn, full, args, pos)
		case "sync/atomic":
			return in.atomicCall(fn, full, args)
		case "time":
			return in.timeCall(fr, fn, full, args, pos)
		case "context":
			if r, ok := in.contextCall(fr, fn, full, args, pos); ok {
				return r, true
			}
		case "os", "io", "path/filepath":
			if r, ok := in.osCall(fr, fn, full, args, pos); ok {
				return r, true
			}
		case "gopkg.in/tomb.v2":
			if r, ok := in.tombCall(fr, fn, full, args, pos); ok {
				return r, true
			}
		case "go.mongodb.org/mongo-driver/bson":
			if r, ok := in.bsonCall(fr, fn, full, args, pos); ok {
				return r, true
			}
		case "github.com/256dpi/lungo/bsonkit", "github.com/256dpi/lungo", "github.com/256dpi/lungo/mongokit":
			if r, ok := in.lungoCall(fr, fn, full, args, pos); ok {
				return r, true
			}
		}
	}
	switch full {
	case "strings.Compare":
		return ci(strings.Compare(str(args[0]), str(args[1]))), true
	case "strings.IndexByte":
		return ci(strings.IndexByte(str(args[0]), byte(in.cint(args[1])))), true
	case "strings.LastIndexByte":
		return ci(strings.LastIndexByte(str(args[0]), byte(in.cint(args[1])))), true
	case "strings.Index":
		return ci(strings.Index(str(args[0]), str(args[1]))), true
	case "strings.LastIndex":
		return ci(strings.LastIndex(str(args[0]), str(args[1]))), true
	case "strings.HasPrefix":
		return Boolc(strings.HasPrefix(str(args[0]), str(args[1]))), true
	case "strings.HasSuffix":
		return Boolc(strings.HasSuffix(str(args[0]), str(args[1]))), true
	case "strings.Contains":
		return Boolc(strings.Contains(str(args[0]), str(args[1]))), true
	case "strings.TrimPrefix":
		return StrV(strings.TrimPrefix(str(args[0]), str(args[1]))), true
	case "strings.TrimSuffix":
		return StrV(strings.TrimSuffix(str(args[0]), str(args[1]))), true
	case "strings.ToLower":
		return StrV(strings.ToLower(str(args[0]))), true
	case "strings.Join":
		return StrV(strings.Join(in.strSlice(args[0]), str(args[1]))), true
	case "strings.Split":
		parts := strings.Split(str(args[0]), str(args[1]))
		d := make([]Value, len(parts))
		for i := range parts {
			d[i] = StrV(parts[i])
		}
		return SliceV{D: d}, true
	case "strconv.Itoa":
		return StrV(strconv.Itoa(in.cint(args[0]))), true
	case "strconv.FormatInt":
		return StrV(strconv.FormatInt(int64(in.cint(args[0])), in.cint(args[1]))), true
	case "strconv.AppendInt":
		s := strconv.FormatInt(int64(in.cint(args[1])), in.cint(args[2]))
		vals := make([]Value, len(s))
		for i := range vals {
			vals[i] = BVc(8, uint64(s[i]))
		}
		return in.appendVals(args[0].(SliceV), vals, types.Typ[types.Uint8], pos), true
	case "strconv.Atoi":
		n, err := strconv.Atoi(str(args[0]))
		if err != nil {
			return Tuple{ci(0), in.mkError("strconv.Atoi: " + err.Error())}, true
		}
		return Tuple{ci(n), &Iface{}}, true
	case "strconv.ParseInt":
		n, err := strconv.ParseInt(str(args[0]), in.cint(args[1]), in.cint(args[2]))
		if err != nil {
			return Tuple{ci(0), in.mkError("strconv.ParseInt: " + err.Error())}, true
		}
		return Tuple{BVc(64, uint64(n)), &Iface{}}, true
	case "unicode/utf8.RuneCountInString":
		return ci(utf8.RuneCountInString(str(args[0]))), true
	case "fmt.Errorf":
		return in.mkError(in.format(args)), true
	case "fmt.Sprintf":
		return StrV(in.format(args)), true
	case "fmt.Sprint", "fmt.Sprintln":
		return StrV("<fmt>"), true
	case "fmt.Println", "fmt.Printf", "fmt.Print":
		return Tuple{ci(0), &Iface{}}, true
	case "bytes.Compare":
		return bytesCompare(in.byteTerms(args[0]), in.byteTerms(args[1])), true
	case "bytes.Equal":
		if r, ok := in.opaqueEqual(args[0], args[1], pos); ok {
			return r, true
		}
		a, b := in.byteTerms(args[0]), in.byteTerms(args[1])
		if len(a) != len(b) {
			return Boolc(false), true
		}
		r := Boolc(true)
		for i := range a {
			r = And(r, Eq(a[i], b[i]))
		}
		return r, true
	case "math.IsNaN":
		return FPIsNaN(args[0].(*Term)), true
	case "math.IsInf":
		t := args[0].(*Term)
		sg := in.cint(args[1])
		if t.Const {
			return Boolc(math.IsInf(t.F, sg)), true
		}
		inf := app(SBool, 0, "fp.isInfinite", t)
		switch {
		case sg > 0:
			return And(inf, app(SBool, 0, "fp.isPositive", t)), true
		case sg < 0:
			return And(inf, app(SBool, 0, "fp.isNegative", t)), true
		}
		return inf, true
	case "math.Floor", "math.Trunc", "math.Ceil":
		t := args[0].(*Term)
		if t.Const {
			switch full {
			case "math.Floor":
				return FPc(math.Floor(t.F)), true
			case "math.Ceil":
				return FPc(math.Ceil(t.F)), true
			}
			return FPc(math.Trunc(t.F)), true
		}
		mode := map[string]string{"math.Floor": "RTN", "math.Trunc": "RTZ", "math.Ceil": "RTP"}[full]
		return app(SFP64, 0, "fp.roundToIntegral "+mode, t), true
	case "math.Abs":
		return FPAbs(args[0].(*Term)), true
	case "math.Inf":
		return FPc(math.Inf(in.cint(args[0]))), true
	case "math.NaN":
		return FPc(math.NaN()), true
	case "math.Mod":
		a, b := args[0].(*Term), args[1].(*Term)
		if a.Const && b.Const {
			return FPc(math.Mod(a.F, b.F)), true
		}
		in.fail("unsupported", "math.Mod on symbolic operands")
	case "math.Float64bits":
		t := args[0].(*Term)
		if t.Const {
			return BVc(64, math.Float64bits(t.F)), true
		}
		in.fail("unsupported", "math.Float64bits on a symbolic operand (use vf.SameFloat)")
	case "math.Float64frombits":
		t := args[0].(*Term)
		if t.Const {
			return FPc(math.Float64frombits(t.U)), true
		}
		return app(SFP64, 0, "(_ to_fp 11 53)", t), true
	case "sort.SliceStable", "sort.Slice":
		sl := in.force(args[0]).V.(SliceV)
		in.sortSlice(fr, sl, args[1].(*Closure), pos)
		if full == "sort.Slice" && in.cfg.Params["unstablesort"] != 0 && len(sl.D) >= 2 {
			// contract model of sort.Slice ("not guaranteed to be stable"): after the stable sort one
			// adjacent pair of EQUAL elements may have swapped places (choice $unstableN = k > 0)
			in.sortSeq++
			k := in.chooseN(fmt.Sprintf("$unstable%d", in.sortSeq), len(sl.D))
			if k > 0 {
				less := args[1].(*Closure)
				a := in.call(fr, less.Fn, []Value{ci(k - 1), ci(k)}, less.Free, pos).(*Term)
				if in.branch(a) {
					in.fail("infeasible", "not a tie")
				}
				b := in.call(fr, less.Fn, []Value{ci(k), ci(k - 1)}, less.Free, pos).(*Term)
				if in.branch(b) {
					in.fail("infeasible", "not a tie")
				}
				x, y := copyVal(sl.D[k]), copyVal(sl.D[k-1])
				in.store(&sl.D[k], y, pos)
				in.store(&sl.D[k-1], x, pos)
			}
		}
		return nil, true
	case "sort.Strings":
		s := args[0].(SliceV)
		ss := in.strSlice(s)
		sortStrings(ss)
		for i := range ss {
			s.D[i] = StrV(ss[i])
		}
		return nil, true
	case "reflect.TypeOf", "reflect.ValueOf":
		in.fail("unsupported", "reflection: "+full)
	case "go.mongodb.org/mongo-driver/bson/primitive.NewObjectID":
		// generated ObjectIDs: pairwise distinct and increasing in generation order (the driver builds
		// them from a timestamp and a process-wide counter); concrete, so that index lookups on
		// generated ids do not fork. Harnesses that need ids in arbitrary order supply them.
		in.oidSeq++
		a := make(Array, 12)
		for i := range a {
			a[i] = BVc(8, 0)
		}
		a[0] = BVc(8, 0x65) // a plausible timestamp byte
		a[10] = BVc(8, uint64(in.oidSeq>>8))
		a[11] = BVc(8, uint64(in.oidSeq))
		return a, true
	case "go.mongodb.org/mongo-driver/bson/primitive.NewDateTimeFromTime":
		// time values are Struct{ms}: see timeCall
		return args[0].(Struct)[1], true
	case "(go.mongodb.org/mongo-driver/bson/primitive.DateTime).Time":
		return Struct{BVc(64, 0), args[0], NilPtr{}}, true
	case "errors.Is":
		a, b := in.force(args[0]), in.force(args[1])
		return in.ifaceEq(a, b, pos), true
	}
	return nil, false
}

func sortStrings(s []string) {
	for i := 1; i < len(s); i++ {
		for j := i; j > 0 && s[j] < s[j-1]; j-- {
			s[j], s[j-1] = s[j-1], s[j]
		}
	}
}

// format renders a format string with concrete arguments where possible; symbolic arguments
// print as "?" (formatting is not the subject of any property).
func (in *Interp) format(args []Value) string {
	f := str(args[0])
	if len(args) < 2 {
		return f
	}
	va, ok := args[1].(SliceV)
	if !ok {
		return f
	}
	var sb strings.Builder
	ai := 0
	for i := 0; i < len(f); i++ {
		if f[i] != '%' || i+1 >= len(f) {
			sb.WriteByte(f[i])
			continue
		}
		i++
		for i < len(f) && strings.IndexByte("+-# 0123456789.", f[i]) >= 0 {
			i++
		}
		if i >= len(f) {
			break
		}
		if f[i] == '%' {
			sb.WriteByte('%')
			continue
		}
		if ai < len(va.D) {
			sb.WriteString(in.fmtArg(va.D[ai], f[i]))
			ai++
		}
	}
	return sb.String()
}

func (in *Interp) fmtArg(v Value, verb byte) string {
	switch x := v.(type) {
	case *Lazy:
		if x.Forced == nil {
			return "?"
		}
		return in.fmtArg(x.Forced, verb)
	case *Iface:
		if x.T == nil {
			return "<nil>"
		}
		return in.fmtArg(x.V, verb)
	case StrV:
		if verb == 'q' {
			return strconv.Quote(string(x))
		}
		return string(x)
	case *Term:
		if x.Const {
			switch x.Kind {
			case SBV:
				return strconv.FormatInt(sx(x.W, x.U), 10)
			case SBool:
				return strconv.FormatBool(x.B)
			case SFP64:
				return strconv.FormatFloat(x.F, 'g', -1, 64)
			}
		}
		return "?"
	case *Value:
		// error values: errors.errorString{ s }
		if st, ok := (*x).(Struct); ok && len(st) == 1 {
			if s, ok := st[0].(StrV); ok {
				return string(s)
			}
		}
	}
	return "?"
}

// insertion sort: the algorithm the Go runtime uses for n <= 12 (sort.Slice) and for blocks of 20
// (sort.SliceStable); list lengths in all harnesses stay below that.
func (in *Interp) sortSlice(fr *frame, s SliceV, less *Closure, pos token.Pos) {
	n := len(s.D)
	if n > 12 {
		in.fail("bound", "sort of more than 12 elements")
	}
	for i := 1; i < n; i++ {
		for j := i; j > 0; j-- {
			r := in.call(fr, less.Fn, []Value{ci(j), ci(j - 1)}, less.Free, pos).(*Term)
			if !in.branch(r) {
				break
			}
			a, b := copyVal(s.D[j]), copyVal(s.D[j-1])
			in.store(&s.D[j], b, pos)
			in.store(&s.D[j-1], a, pos)
		}
	}
}

// ---------- sync ----------

func (in *Interp) syncCall(fr *frame, fn *ssa.Function, full string, args []Value, pos token.Pos) (Value, bool) {
	switch full {
	case "(*sync.Mutex).Lock", "(*sync.RWMutex).Lock":
		in.lock(fr, args[0].(*Value), true, pos)
		return nil, true
	case "(*sync.Mutex).Unlock", "(*sync.RWMutex).Unlock":
		in.unlock(fr, args[0].(*Value), true, pos)
		return nil, true
	case "(*sync.RWMutex).RLock":
		in.lock(fr, args[0].(*Value), false, pos)
		return nil, true
	case "(*sync.RWMutex).RUnlock":
		in.unlock(fr, args[0].(*Value), false, pos)
		return nil, true
	case "(*sync.Mutex).TryLock":
		return Boolc(in.tryLock(fr, args[0].(*Value), true)), true
	case "(*sync.Pool).Get":
		p := args[0].(*Value)
		st := (*p).(Struct)
		// field "New" is the last field of sync.Pool
		newf := st[len(st)-1]
		if c, ok := newf.(*Closure); ok {
			return in.callValue(fr, c, nil, pos), true
		}
		return &Iface{}, true
	case "(*sync.Pool).Put":
		return nil, true
	case "(*sync.Once).Do":
		p := args[0].(*Value)
		key := fmt.Sprintf("once:%p", p)
		if in.ghost[key] == nil {
			in.ghost[key] = Boolc(true)
			in.callValue(fr, args[1], nil, pos)
		}
		return nil, true
	case "(*sync.WaitGroup).Add", "(*sync.WaitGroup).Done", "(*sync.WaitGroup).Wait":
		return in.waitGroup(fr, full, args, pos), true
	}
	in.fail("unsupported", "sync: "+full)
	return nil, true
}

func (in *Interp) atomicCall(fn *ssa.Function, full string, args []Value) (Value, bool) {
	name := fn.Name()
	// typed atomics ((*atomic.Int64).Add, (*atomic.Value).Load, ...): the payload is the last field
	if fn.Signature.Recv() != nil {
		p := args[0].(*Value)
		if st, ok := (*p).(Struct); ok && len(st) > 0 {
			slot := &st[len(st)-1]
			switch name {
			case "Add":
				n := BVBin("add", false, (*slot).(*Term), args[1].(*Term))
				*slot = n
				return n, true
			case "Load":
				return copyVal(*slot), true
			case "Store":
				storeInto(slot, args[1])
				return nil, true
			case "Swap":
				old := copyVal(*slot)
				storeInto(slot, args[1])
				return old, true
			case "CompareAndSwap":
				eq := in.valEq(*slot, args[1], token.NoPos)
				if in.branch(eq) {
					storeInto(slot, args[2])
					return Boolc(true), true
				}
				return Boolc(false), true
			}
		}
		in.fail("unsupported", "atomic: "+full)
	}
	switch {
	case strings.HasPrefix(name, "Add"):
		p := args[0].(*Value)
		n := BVBin("add", false, (*p).(*Term), args[1].(*Term))
		*p = n
		return n, true
	case strings.HasPrefix(name, "Load"):
		return copyVal(*args[0].(*Value)), true
	case strings.HasPrefix(name, "Store"):
		storeInto(args[0].(*Value), args[1])
		return nil, true
	case strings.HasPrefix(name, "CompareAndSwap"):
		p := args[0].(*Value)
		old, ok1 := (*p).(*Term)
		exp, ok2 := args[1].(*Term)
		if ok1 && ok2 {
			if in.branch(Eq(old, exp)) {
				*p = args[2]
				return Boolc(true), true
			}
			return Boolc(false), true
		}
	}
	// typed atomics: (*atomic.Int64).Add etc.
	if fn.Signature.Recv() != nil {
		p := args[0].(*Value)
		st, ok := (*p).(Struct)
		if ok {
			slot := &st[len(st)-1]
			switch name {
			case "Add":
				n := BVBin("add", false, (*slot).(*Term), args[1].(*Term))
				*slot = n
				return n, true
			case "Load":
				return copyVal(*slot), true
			case "Store":
				storeInto(slot, args[1])
				return nil, true
			}
		}
	}
	in.fail("unsupported", "atomic: "+full)
	return nil, true
}
