package gosym

import (
	"fmt"
	"go/constant"
	"go/token"
	"go/types"
	"sort"
	"strings"
	"sync"

	"golang.org/x/tools/go/ssa"
)

// ---------- path outcome ----------

// pathEnd terminates the current path (it is thrown as a Go panic through the interpreter).
type pathEnd struct {
	kind string // return | assert | panic | infeasible | unknown | unsupported | bound | deadlock | mismatch
	msg  string
}

// goPanic is a panic of the interpreted program.
type goPanic struct {
	val Value
	msg string
	pos string
}

// Config holds per-harness bounds.
type Config struct {
	MaxSteps   int
	MaxDepth   int
	LoopBound  int
	ConcK      int // max feasible values when concretising a symbolic integer
	MapPerm    int // fork over all iteration orders for maps with <= MapPerm entries (0: insertion order)
	Params     map[string]int
	StrPool    []string
	TimeoutMs  int
	RunInits   []string // package path prefixes whose init functions are executed
	Concurrent bool
}

type Interp struct {
	prog         *ssa.Program
	sol          *Solver
	cfg          *Config
	globals      map[*ssa.Global]*Value
	prefix       []int64
	pos          int
	newWork      [][]int64
	pc           []*Term
	sortSeq      int               // sort.Slice calls seen on this path (contract model, see intrinsics.go)
	symNames     []string          // smt names, in creation order
	symIDs       map[string]string // smt name -> id
	steps        int
	funcs        map[*ssa.Function]int
	depth        int
	addrSeq      int
	known        map[string]bool
	addrs        map[*Value]*Term
	tcache       *typeCache
	frozen       map[*Value]string
	frozenM      map[*MapV]string
	observed     []obs
	asserts      int
	assumes      []string
	reached      map[string]bool
	env          *envModel
	sched        *scheduler
	errNew       *ssa.Function
	catchers     int
	ghost        map[string]Value
	loopCnt      map[*ssa.BasicBlock]int
	freezeExempt int
	oidSeq       int
}

type obs struct {
	tag string
	t   *Term
}

func (in *Interp) fail(kind, msg string) { panic(pathEnd{kind, msg}) }

func (in *Interp) goPanicf(pos token.Pos, format string, a ...interface{}) {
	msg := fmt.Sprintf(format, a...)
	p := ""
	if pos.IsValid() {
		p = in.prog.Fset.Position(pos).String()
	}
	panic(&goPanic{val: &Iface{T: in.tcache.runtimeError(), V: StrV("runtime error: " + msg)}, msg: "runtime error: " + msg, pos: p})
}

// ---------- choices ----------

func (in *Interp) decide(n int, mk func(i int) *Term, fresh bool) int {
	// replaying a prefix
	if in.pos < len(in.prefix) {
		c := int(in.prefix[in.pos])
		in.pos++
		in.assume(mk(c))
		return c
	}
	chosen := -1
	for i := 0; i < n; i++ {
		c := mk(i)
		if c.Const && !c.B {
			continue
		}
		if !fresh && !c.Const {
			in.sol.Push()
			in.sol.Assert(c)
			r := in.sol.Check()
			in.sol.Pop()
			if r == "unsat" {
				continue
			}
			if r != "sat" {
				in.fail("unknown", "solver returned "+r+" on a feasibility query")
			}
		}
		if chosen < 0 {
			chosen = i
		} else {
			w := make([]int64, in.pos+1)
			copy(w, in.prefix[:in.pos])
			w[in.pos] = int64(i)
			in.newWork = append(in.newWork, w)
		}
	}
	if chosen < 0 {
		in.fail("infeasible", "no feasible alternative")
	}
	in.prefix = append(in.prefix[:in.pos], int64(chosen))
	in.pos++
	in.assume(mk(chosen))
	return chosen
}

// chooseN is a choice over a fresh variable: every alternative is feasible, no solver query.
func (in *Interp) chooseN(id string, n int) int {
	if n <= 0 {
		in.fail("infeasible", "empty choice "+id)
	}
	if n == 1 {
		return 0
	}
	v := in.fresh(id, SBV, 8)
	return in.decide(n, func(i int) *Term { return Eq(v, BVc(8, uint64(i))) }, true)
}

func (in *Interp) assume(c *Term) {
	if c.Const {
		if !c.B {
			in.fail("infeasible", "assume false")
		}
		return
	}
	in.pc = append(in.pc, c)
	in.known[c.String()] = true
	in.sol.Assert(c)
}

func (in *Interp) branch(c *Term) bool {
	if c.Const {
		return c.B
	}
	if in.known[c.String()] {
		return true
	}
	nc := Not(c)
	if in.known[nc.String()] {
		return false
	}
	return in.decide(2, func(i int) *Term {
		if i == 0 {
			return c
		}
		return nc
	}, false) == 0
}

func (in *Interp) fresh(id string, kind SortKind, w int) *Term {
	name := "|" + strings.NewReplacer("|", "!", "\\", "!").Replace(id) + "|"
	var srt string
	switch kind {
	case SBool:
		srt = "Bool"
	case SBV:
		srt = fmt.Sprintf("(_ BitVec %d)", w)
	case SFP64:
		srt = "(_ FloatingPoint 11 53)"
	}
	in.sol.Declare(name, srt)
	if _, ok := in.symIDs[name]; !ok {
		in.symIDs[name] = id
		in.symNames = append(in.symNames, name)
	}
	return &Term{Kind: kind, W: w, S: name}
}

// concretize turns a symbolic integer into a concrete one by forking over its feasible values.
func (in *Interp) concretize(t *Term) int64 {
	if t.Const {
		return sx(t.W, t.U)
	}
	if in.pos < len(in.prefix) {
		v := in.prefix[in.pos]
		in.pos++
		in.assume(Eq(t, BVc(t.W, uint64(v))))
		return v
	}
	// enumerate feasible values
	var vals []int64
	tmp := in.fresh("$conc", SBV, t.W)
	in.sol.Push()
	in.sol.Assert(Eq(tmp, t))
	for len(vals) <= in.cfg.ConcK {
		r := in.sol.Check()
		if r == "unsat" {
			break
		}
		if r != "sat" {
			in.sol.Pop()
			in.fail("unknown", "solver returned "+r+" while concretising")
		}
		m := in.sol.Model([]string{tmp.S})
		bits, ok := parseSMTValue(m[tmp.S])
		if !ok {
			in.sol.Pop()
			in.fail("unknown", "cannot parse model value "+m[tmp.S])
		}
		v := sx(t.W, bits&mask(t.W))
		vals = append(vals, v)
		in.sol.Assert(Not(Eq(tmp, BVc(t.W, uint64(v)))))
	}
	in.sol.Pop()
	if len(vals) == 0 {
		in.fail("infeasible", "concretize: no value")
	}
	if len(vals) > in.cfg.ConcK {
		in.fail("bound", fmt.Sprintf("symbolic integer used as index/length has more than %d feasible values: %s", in.cfg.ConcK, trunc(t.String(), 200)))
	}
	sort.Slice(vals, func(i, j int) bool { return vals[i] < vals[j] })
	for _, v := range vals[1:] {
		w := make([]int64, in.pos+1)
		copy(w, in.prefix[:in.pos])
		w[in.pos] = v
		in.newWork = append(in.newWork, w)
	}
	in.prefix = append(in.prefix[:in.pos], vals[0])
	in.pos++
	in.assume(Eq(t, BVc(t.W, uint64(vals[0]))))
	return vals[0]
}

func trunc(s string, n int) string {
	if len(s) > n {
		return s[:n] + "..."
	}
	return s
}

func (in *Interp) cint(v Value) int {
	return int(in.concretize(v.(*Term)))
}

// ---------- frames ----------

type deferred struct {
	fv   Value
	args []Value
	pos  token.Pos
}

type frame struct {
	fn        *ssa.Function
	caller    *frame
	env       map[ssa.Value]Value
	defers    []deferred
	result    Value
	panicking bool
	panicVal  *goPanic
	block     *ssa.BasicBlock
	prev      *ssa.BasicBlock
	g         *G
}

func (in *Interp) constVal(c *ssa.Const) Value {
	if c.Value == nil {
		return zero(c.Type())
	}
	t, ok := c.Type().Underlying().(*types.Basic)
	if !ok {
		panic("const type " + c.Type().String())
	}
	switch {
	case t.Info()&types.IsBoolean != 0:
		return Boolc(constant.BoolVal(c.Value))
	case t.Info()&types.IsInteger != 0:
		if t.Info()&types.IsUnsigned != 0 {
			u, _ := constant.Uint64Val(constant.ToInt(c.Value))
			return BVc(intWidth(t), u)
		}
		i, _ := constant.Int64Val(constant.ToInt(c.Value))
		return BVc(intWidth(t), uint64(i))
	case t.Info()&types.IsFloat != 0:
		f, _ := constant.Float64Val(c.Value)
		return FPc(f)
	case t.Info()&types.IsString != 0:
		return StrV(constant.StringVal(c.Value))
	}
	panic("const kind " + t.String())
}

func (in *Interp) global(v *ssa.Global) *Value {
	g, ok := in.globals[v]
	if !ok {
		var z Value = zero(v.Type().(*types.Pointer).Elem())
		// sentinel errors of packages whose init is skipped
		if v.Pkg != nil && !in.runsInit(v.Pkg.Pkg.Path()) {
			et := v.Type().(*types.Pointer).Elem()
			if types.Identical(et, types.Universe.Lookup("error").Type()) {
				z = in.mkError(v.Pkg.Pkg.Name() + "." + v.Name())
			} else if initWrites(v) && !modelledGlobals[v.Pkg.Pkg.Path()+"."+v.Name()] {
				// the zero value would misrepresent the program: refuse rather than guess
				in.fail("unsupported", "global "+v.Pkg.Pkg.Path()+"."+v.Name()+" has an initialiser in a package whose init is not executed (add the package to Config.RunInits or model the value)")
			}
		}
		g = &z
		in.globals[v] = g
	}
	return g
}

func (in *Interp) runsInit(path string) bool {
	for _, p := range in.cfg.RunInits {
		if strings.HasPrefix(path, p) {
			return true
		}
	}
	return false
}

func (in *Interp) get(fr *frame, v ssa.Value) Value {
	switch v := v.(type) {
	case *ssa.Const:
		return in.constVal(v)
	case *ssa.Global:
		return in.global(v)
	case *ssa.Function:
		return &Closure{Fn: v}
	case *ssa.Builtin:
		return v
	}
	r, ok := fr.env[v]
	if !ok {
		panic("unbound " + v.Name() + " in " + fr.fn.String())
	}
	return r
}

func (in *Interp) call(caller *frame, fn *ssa.Function, args []Value, free []Value, pos token.Pos) Value {
	if r, ok := in.intrinsic(caller, fn, args, pos); ok {
		return r
	}
	if fn.Blocks == nil {
		in.fail("unsupported", "external function "+fn.String())
	}
	in.funcs[fn]++
	in.depth++
	if in.depth > in.cfg.MaxDepth {
		in.fail("bound", "recursion bound exceeded in "+fn.String())
	}
	fr := &frame{fn: fn, caller: caller, env: make(map[ssa.Value]Value, 16)}
	if caller != nil {
		fr.g = caller.g
	}
	for i, p := range fn.Params {
		fr.env[p] = args[i]
	}
	for i, fv := range fn.FreeVars {
		fr.env[fv] = free[i]
	}
	fr.block = fn.Blocks[0]
	// tidwall/btree's IsoCopy bumps the copy-on-write generation counter of the SOURCE tree header
	// (under the tree's own lock). That is the one benign write into a structure an older snapshot
	// reaches; it is exempt from the freeze monitor (DESIGN.md section 10.5).
	exempt := in.frozen != nil && fn.Name() == "IsoCopy" && strings.Contains(fn.String(), "tidwall/btree")
	if exempt {
		in.freezeExempt++
	}
	for fr.block != nil {
		in.runFrame(fr)
	}
	if exempt {
		in.freezeExempt--
	}
	in.depth--
	return fr.result
}

func (in *Interp) runFrame(fr *frame) {
	defer func() {
		if fr.block == nil {
			return // normal return
		}
		r := recover()
		gp, ok := r.(*goPanic)
		if !ok {
			panic(r) // path end or engine bug: propagate untouched
		}
		fr.panicking = true
		fr.panicVal = gp
		in.runDefers(fr)
		// recovered
		fr.block = fr.fn.Recover
		if fr.block == nil {
			// function without named results returns zero values
			fr.result = zeroResults(fr.fn)
		}
	}()
	for {
		b := fr.block
		if b.Index != 0 && len(b.Preds) > 1 {
			// loop bound per path on back edges (approximation: count visits of join blocks)
			in.loopCnt[b]++
			if in.loopCnt[b] > in.cfg.LoopBound {
				in.fail("bound", fmt.Sprintf("loop bound %d exceeded in %s block %d", in.cfg.LoopBound, fr.fn, b.Index))
			}
		}
		var next *ssa.BasicBlock
	instrs:
		for _, instr := range b.Instrs {
			in.steps++
			if in.steps > in.cfg.MaxSteps {
				in.fail("bound", "step bound exceeded")
			}
			switch i := instr.(type) {
			case *ssa.Phi:
				for k, p := range b.Preds {
					if p == fr.prev {
						fr.env[i] = in.get(fr, i.Edges[k])
						break
					}
				}
			case *ssa.If:
				c := in.get(fr, i.Cond).(*Term)
				if in.branch(c) {
					next = b.Succs[0]
				} else {
					next = b.Succs[1]
				}
				break instrs
			case *ssa.Jump:
				next = b.Succs[0]
				break instrs
			case *ssa.Return:
				switch len(i.Results) {
				case 0:
					fr.result = nil
				case 1:
					fr.result = in.get(fr, i.Results[0])
				default:
					t := make(Tuple, len(i.Results))
					for k, r := range i.Results {
						t[k] = in.get(fr, r)
					}
					fr.result = t
				}
				fr.block = nil
				return
			case *ssa.Panic:
				x := in.get(fr, i.X)
				panic(&goPanic{val: x, msg: in.show(x), pos: in.prog.Fset.Position(i.Pos()).String()})
			case *ssa.Store:
				p, ok := in.get(fr, i.Addr).(*Value)
				if !ok {
					in.goPanicf(i.Pos(), "invalid memory address or nil pointer dereference")
				}
				in.store(p, in.get(fr, i.Val), i.Pos())
			case *ssa.MapUpdate:
				m, ok := in.get(fr, i.Map).(*MapV)
				if !ok {
					in.goPanicf(i.Pos(), "assignment to entry in nil map")
				}
				if in.frozenM != nil {
					if why, fz := in.frozenM[m]; fz {
						in.fail("assert", "write to frozen map ("+why+") at "+in.prog.Fset.Position(i.Pos()).String())
					}
				}
				k := in.get(fr, i.Key)
				m.set(in.mapKey(k), k, in.get(fr, i.Value))
			case *ssa.Defer:
				c := i.Call
				var fv Value
				var args []Value
				if c.IsInvoke() {
					fn, recv := in.lookupMethod(in.get(fr, c.Value), c.Method, i.Pos())
					fv = &Closure{Fn: fn}
					args = append(args, recv)
				} else {
					fv = in.get(fr, c.Value)
				}
				for _, a := range c.Args {
					args = append(args, in.get(fr, a))
				}
				fr.defers = append(fr.defers, deferred{fv: fv, args: args, pos: i.Pos()})
			case *ssa.RunDefers:
				in.runDefers(fr)
			case *ssa.Go:
				in.goStmt(fr, i)
			case *ssa.Send:
				in.chanSend(fr, in.get(fr, i.Chan), in.get(fr, i.X), i.Pos())
			case *ssa.DebugRef:
			case ssa.Value:
				fr.env[i] = in.eval(fr, i)
			default:
				in.fail("unsupported", fmt.Sprintf("instruction %T in %s", instr, fr.fn))
			}
		}
		fr.prev, fr.block = b, next
	}
}

func zeroResults(fn *ssa.Function) Value {
	res := fn.Signature.Results()
	switch res.Len() {
	case 0:
		return nil
	case 1:
		return zero(res.At(0).Type())
	}
	return zero(res)
}

func (in *Interp) runDefers(fr *frame) {
	for len(fr.defers) > 0 {
		d := fr.defers[len(fr.defers)-1]
		fr.defers = fr.defers[:len(fr.defers)-1]
		in.runDefer(fr, d)
	}
	if fr.panicking {
		panic(fr.panicVal)
	}
}

func (in *Interp) runDefer(fr *frame, d deferred) {
	ok := false
	depth := in.depth
	defer func() {
		if ok {
			return
		}
		r := recover()
		gp, isGo := r.(*goPanic)
		if !isGo {
			panic(r)
		}
		in.depth = depth
		fr.panicking = true
		fr.panicVal = gp
	}()
	in.callValue(fr, d.fv, d.args, d.pos)
	ok = true
}

func (in *Interp) store(p *Value, v Value, pos token.Pos) {
	if in.frozen != nil {
		in.checkFrozen(p, v, pos)
	}
	storeInto(p, v)
}

// ---------- map keys ----------

func (in *Interp) mapKey(k Value) string {
	switch k := k.(type) {
	case StrV:
		return "s:" + string(k)
	case *Term:
		if !k.Const {
			k = BVc(k.W, uint64(in.concretize(k)))
		}
		return "t:" + k.String()
	case *Value:
		return fmt.Sprintf("p:%p", k)
	case NilPtr:
		return "nilptr"
	case *MapV:
		return fmt.Sprintf("m:%p", k)
	case *ChanV:
		return fmt.Sprintf("c:%p", k)
	case Array:
		s := "a:"
		for _, e := range k {
			s += in.mapKey(e) + ","
		}
		return s
	case Struct:
		s := "S:"
		for _, e := range k {
			s += in.mapKey(e) + ","
		}
		return s
	case *Iface:
		if k.T == nil {
			return "nil"
		}
		if !types.Comparable(k.T) {
			in.goPanicf(token.NoPos, "hash of unhashable type %s", k.T)
		}
		return "i:" + k.T.String() + ":" + in.mapKey(k.V)
	case *Lazy:
		return in.mapKey(in.force(k))
	}
	in.fail("unsupported", fmt.Sprintf("map key %T", k))
	return ""
}

func (in *Interp) show(v Value) string {
	switch v := v.(type) {
	case *Iface:
		if v.T == nil {
			return "nil"
		}
		if s, ok := v.V.(StrV); ok {
			return string(s)
		}
		if p, ok := v.V.(*Value); ok {
			// errors.errorString and friends
			if st, ok := (*p).(Struct); ok && len(st) >= 1 {
				if s, ok := st[0].(StrV); ok {
					return string(s)
				}
			}
		}
		return fmt.Sprintf("%s(%s)", v.T, in.show(v.V))
	case *Lazy:
		if v.Forced != nil {
			return in.show(v.Forced)
		}
		return "lazy:" + v.ID
	case StrV:
		return string(v)
	case *Term:
		return trunc(v.String(), 80)
	case *Value:
		return "&" + in.show(*v)
	case Struct:
		s := "{"
		for _, f := range v {
			s += in.show(f) + " "
		}
		return s + "}"
	case SliceV:
		s := "["
		for _, f := range v.D {
			s += in.show(f) + " "
		}
		return s + "]"
	case Array:
		s := "["
		for _, f := range v {
			s += in.show(f) + " "
		}
		return s + "]"
	}
	return fmt.Sprintf("%T", v)
}

// modelledGlobals: globals of packages whose init is skipped that the engine may read as zero values
// because every use is intercepted or the zero value is what the model wants.
var modelledGlobals = map[string]bool{}

var initWritesCache sync.Map // *ssa.Package -> map[*ssa.Global]bool

// initWrites reports whether the package initialiser stores into global g (directly or into a part of it).
func initWrites(g *ssa.Global) bool {
	pkg := g.Pkg
	if c, ok := initWritesCache.Load(pkg); ok {
		return c.(map[*ssa.Global]bool)[g]
	}
	set := map[*ssa.Global]bool{}
	var scan func(fn *ssa.Function)
	seen := map[*ssa.Function]bool{}
	scan = func(fn *ssa.Function) {
		if fn == nil || seen[fn] || fn.Pkg != pkg {
			return
		}
		seen[fn] = true
		for _, b := range fn.Blocks {
			for _, ins := range b.Instrs {
				switch ins := ins.(type) {
				case *ssa.Store:
					a := ins.Addr
					for {
						switch x := a.(type) {
						case *ssa.FieldAddr:
							a = x.X
							continue
						case *ssa.IndexAddr:
							a = x.X
							continue
						}
						break
					}
					if gg, ok := a.(*ssa.Global); ok {
						set[gg] = true
					}
				case *ssa.Call:
					if callee := ins.Call.StaticCallee(); callee != nil && strings.HasPrefix(callee.Name(), "init#") {
						scan(callee)
					}
				}
			}
		}
	}
	scan(pkg.Func("init"))
	initWritesCache.Store(pkg, set)
	return set[g]
}
