package gosym

import (
	"fmt"
	"math"
	"strings"
)

// Sort kinds
type SortKind int

const (
	SBool SortKind = iota
	SBV
	SFP64
)

// Term is an SMT term with constant folding. Constants carry their Go value.

type Term struct {
	Kind  SortKind
	W     int    // bv width
	S     string // smt text (for non-const)
	Const bool
	U     uint64  // bv const (masked)
	B     bool    // bool const
	F     float64 // fp const
}

func mask(w int) uint64 {
	if w >= 64 {
		return ^uint64(0)
	}
	return (uint64(1) << uint(w)) - 1
}

func BVc(w int, u uint64) *Term { return &Term{Kind: SBV, W: w, Const: true, U: u & mask(w)} }
func Boolc(b bool) *Term        { return &Term{Kind: SBool, Const: true, B: b} }
func FPc(f float64) *Term       { return &Term{Kind: SFP64, Const: true, F: f} }

func (t *Term) String() string {
	if !t.Const {
		return t.S
	}
	switch t.Kind {
	case SBool:
		if t.B {
			return "true"
		}
		return "false"
	case SBV:
		if t.W%4 == 0 {
			return fmt.Sprintf("#x%0*x", t.W/4, t.U)
		}
		return fmt.Sprintf("#b%0*b", t.W, t.U)
	case SFP64:
		return fmt.Sprintf("((_ to_fp 11 53) #x%016x)", math.Float64bits(t.F))
	}
	panic("bad term")
}

func sx(w int, u uint64) int64 {
	if w >= 64 {
		return int64(u)
	}
	if u&(1<<uint(w-1)) != 0 {
		return int64(u | ^mask(w))
	}
	return int64(u)
}

func app(kind SortKind, w int, op string, args ...*Term) *Term {
	var sb strings.Builder
	sb.WriteString("(")
	sb.WriteString(op)
	for _, a := range args {
		sb.WriteString(" ")
		sb.WriteString(a.String())
	}
	sb.WriteString(")")
	return &Term{Kind: kind, W: w, S: sb.String()}
}

func Not(a *Term) *Term {
	if a.Const {
		return Boolc(!a.B)
	}
	if strings.HasPrefix(a.S, "(not ") {
		return &Term{Kind: SBool, S: a.S[5 : len(a.S)-1]}
	}
	return app(SBool, 0, "not", a)
}
func And(a, b *Term) *Term {
	if a.Const {
		if a.B {
			return b
		}
		return a
	}
	if b.Const {
		if b.B {
			return a
		}
		return b
	}
	return app(SBool, 0, "and", a, b)
}
func Or(a, b *Term) *Term { return Not(And(Not(a), Not(b))) }
func Eq(a, b *Term) *Term {
	if a.Const && b.Const {
		switch a.Kind {
		case SBool:
			return Boolc(a.B == b.B)
		case SBV:
			return Boolc(a.U == b.U)
		}
	}
	return app(SBool, 0, "=", a, b)
}
func Ite(c, a, b *Term) *Term {
	if c.Const {
		if c.B {
			return a
		}
		return b
	}
	return app(a.Kind, a.W, "ite", c, a, b)
}

// BV binary ops with constant folding.
func BVBin(op string, signed bool, a, b *Term) *Term {
	w := a.W
	if a.Const && b.Const {
		x, y := a.U, b.U
		sxv, syv := sx(w, x), sx(w, y)
		switch op {
		case "add":
			return BVc(w, x+y)
		case "sub":
			return BVc(w, x-y)
		case "mul":
			return BVc(w, x*y)
		case "and":
			return BVc(w, x&y)
		case "or":
			return BVc(w, x|y)
		case "xor":
			return BVc(w, x^y)
		case "andnot":
			return BVc(w, x&^y)
		case "div":
			if y != 0 {
				if signed {
					return BVc(w, uint64(sxv/syv))
				}
				return BVc(w, x/y)
			}
		case "rem":
			if y != 0 {
				if signed {
					return BVc(w, uint64(sxv%syv))
				}
				return BVc(w, x%y)
			}
		}
	}
	switch op {
	case "add":
		return app(SBV, w, "bvadd", a, b)
	case "sub":
		return app(SBV, w, "bvsub", a, b)
	case "mul":
		return app(SBV, w, "bvmul", a, b)
	case "and":
		return app(SBV, w, "bvand", a, b)
	case "or":
		return app(SBV, w, "bvor", a, b)
	case "xor":
		return app(SBV, w, "bvxor", a, b)
	case "andnot":
		return app(SBV, w, "bvand", a, app(SBV, w, "bvnot", b))
	case "div":
		if signed {
			return app(SBV, w, "bvsdiv", a, b)
		}
		return app(SBV, w, "bvudiv", a, b)
	case "rem":
		if signed {
			return app(SBV, w, "bvsrem", a, b)
		}
		return app(SBV, w, "bvurem", a, b)
	}
	panic("bvbin " + op)
}

func BVCmp(op string, signed bool, a, b *Term) *Term {
	w := a.W
	if a.Const && b.Const {
		x, y := a.U, b.U
		sxv, syv := sx(w, x), sx(w, y)
		var r bool
		switch op {
		case "lt":
			if signed {
				r = sxv < syv
			} else {
				r = x < y
			}
		case "le":
			if signed {
				r = sxv <= syv
			} else {
				r = x <= y
			}
		case "gt":
			if signed {
				r = sxv > syv
			} else {
				r = x > y
			}
		case "ge":
			if signed {
				r = sxv >= syv
			} else {
				r = x >= y
			}
		}
		return Boolc(r)
	}
	p := "bvu"
	if signed {
		p = "bvs"
	}
	return app(SBool, 0, p+op, a, b)
}

func FPCmp(op string, a, b *Term) *Term {
	if a.Const && b.Const {
		x, y := a.F, b.F
		switch op {
		case "eq":
			return Boolc(x == y)
		case "lt":
			return Boolc(x < y)
		case "le":
			return Boolc(x <= y)
		case "gt":
			return Boolc(x > y)
		case "ge":
			return Boolc(x >= y)
		}
	}
	m := map[string]string{"eq": "fp.eq", "lt": "fp.lt", "le": "fp.leq", "gt": "fp.gt", "ge": "fp.geq"}
	return app(SBool, 0, m[op], a, b)
}

// int (signed, width w) -> float64, round nearest even
func IntToFP(a *Term, signed bool) *Term {
	if a.Const {
		if signed {
			return FPc(float64(sx(a.W, a.U)))
		}
		return FPc(float64(a.U))
	}
	if signed {
		return app(SFP64, 0, "(_ to_fp 11 53) RNE", a)
	}
	return app(SFP64, 0, "(_ to_fp_unsigned 11 53) RNE", a)
}

// float64 -> signed int of width w with amd64 semantics (out of range/NaN => MinInt)
func FPToInt(a *Term, w int) *Term {
	if a.Const {
		f := a.F
		if f != f || f >= 9223372036854775808.0 || f < -9223372036854775808.0 {
			return BVc(w, uint64(1)<<63)
		}
		return BVc(w, uint64(int64(f)))
	}
	if w != 64 {
		panic("fp->int width")
	}
	lo := FPc(-9223372036854775808.0)
	hi := FPc(9223372036854775808.0)
	inr := And(FPCmp("ge", a, lo), FPCmp("lt", a, hi))
	return Ite(inr, app(SBV, 64, "(_ fp.to_sbv 64) RTZ", a), BVc(64, uint64(1)<<63))
}

func SignExt(a *Term, to int) *Term {
	if a.W == to {
		return a
	}
	if a.Const {
		return BVc(to, uint64(sx(a.W, a.U)))
	}
	return &Term{Kind: SBV, W: to, S: fmt.Sprintf("((_ sign_extend %d) %s)", to-a.W, a)}
}
func ZeroExt(a *Term, to int) *Term {
	if a.W == to {
		return a
	}
	if a.Const {
		return BVc(to, a.U)
	}
	return &Term{Kind: SBV, W: to, S: fmt.Sprintf("((_ zero_extend %d) %s)", to-a.W, a)}
}
func Trunc(a *Term, to int) *Term {
	if a.W == to {
		return a
	}
	if a.Const {
		return BVc(to, a.U)
	}
	return &Term{Kind: SBV, W: to, S: fmt.Sprintf("((_ extract %d 0) %s)", to-1, a)}
}

func FPNeg(a *Term) *Term {
	if a.Const {
		return FPc(-a.F)
	}
	return app(SFP64, 0, "fp.neg", a)
}

func FPAbs(a *Term) *Term {
	if a.Const {
		return FPc(math.Abs(a.F))
	}
	return app(SFP64, 0, "fp.abs", a)
}

// FPSame is structural equality of doubles: +0 != -0, NaN == NaN (all NaNs are one value in SMT).
func FPSame(a, b *Term) *Term {
	if a.Const && b.Const {
		return Boolc(math.Float64bits(a.F) == math.Float64bits(b.F) || (a.F != a.F && b.F != b.F))
	}
	return app(SBool, 0, "=", a, b)
}

func FPIsNaN(a *Term) *Term {
	if a.Const {
		return Boolc(a.F != a.F)
	}
	return app(SBool, 0, "fp.isNaN", a)
}

func Concat(hi, lo *Term) *Term {
	if hi.Const && lo.Const && hi.W+lo.W <= 64 {
		return BVc(hi.W+lo.W, hi.U<<uint(lo.W)|lo.U)
	}
	return &Term{Kind: SBV, W: hi.W + lo.W, S: fmt.Sprintf("(concat %s %s)", hi, lo)}
}

func Extract(a *Term, hi, lo int) *Term {
	if a.Const {
		return BVc(hi-lo+1, a.U>>uint(lo))
	}
	return &Term{Kind: SBV, W: hi - lo + 1, S: fmt.Sprintf("((_ extract %d %d) %s)", hi, lo, a)}
}

// Implies etc.
func Implies(a, b *Term) *Term { return Or(Not(a), b) }

func AndAll(ts ...*Term) *Term {
	r := Boolc(true)
	for _, t := range ts {
		r = And(r, t)
	}
	return r
}
