package gosym

import (
	"fmt"
	"go/token"
	"go/types"
	"strings"

	"golang.org/x/tools/go/ssa"
)

// vfCall implements the harness API (package internal/vf) symbolically.
func (in *Interp) vfCall(fr *frame, fn *ssa.Function, args []Value, pos token.Pos) Value {
	name := fn.Name()
	switch name {
	case "Int64", "Int":
		return in.fresh(str(args[0]), SBV, 64)
	case "Int32":
		return in.fresh(str(args[0]), SBV, 32)
	case "Uint32":
		return in.fresh(str(args[0]), SBV, 32)
	case "Uint8":
		return in.fresh(str(args[0]), SBV, 8)
	case "Float64":
		return in.fresh(str(args[0]), SFP64, 0)
	case "Bool":
		return in.fresh(str(args[0]), SBool, 0)
	case "Choice":
		return ci(in.chooseN(str(args[0]), in.cint(args[1])))
	case "String":
		pool := splitCSVKeep(str(args[1]))
		return StrV(pool[in.chooseN(str(args[0]), len(pool))])
	case "Value":
		// Value(id, keys, maxLen, tags, depth)
		return &Lazy{ID: str(args[0]), Keys: splitCSV(str(args[1])), MaxLen: in.cint(args[2]), Tags: uint32(in.cint(args[3])), Depth: in.cint(args[4])}
	case "Doc":
		// Doc(id, keys, maxLen, tags, depth) bson.D
		l := &Lazy{ID: str(args[0]), Keys: splitCSV(str(args[1])), MaxLen: in.cint(args[2]), Tags: uint32(in.cint(args[3])), Depth: in.cint(args[4]) + 1}
		l.topDoc = true
		return in.mkDoc(l)
	case "Child":
		return BVc(32, uint64(uint32(in.cint(args[0]))<<16))
	case "Assume":
		in.assume(args[0].(*Term))
		return nil
	case "Assert":
		in.assertTerm(args[0].(*Term), str(args[1]), pos)
		return nil
	case "Fail":
		in.assertTerm(Boolc(false), str(args[0]), pos)
		return nil
	case "Reach":
		in.reached[str(args[0])] = true
		return nil
	case "Observe":
		in.observed = append(in.observed, obs{str(args[0]), args[1].(*Term)})
		return nil
	case "ObserveBool":
		b := args[1].(*Term)
		in.observed = append(in.observed, obs{str(args[0]), Ite(b, BVc(64, 1), BVc(64, 0))})
		return nil
	case "Param":
		if v, ok := in.cfg.Params[str(args[0])]; ok {
			return ci(v)
		}
		return args[1]
	case "SameFloat":
		return FPSame(args[0].(*Term), args[1].(*Term))
	case "Freeze":
		in.freezeValue(args[0], str(args[1]))
		return nil
	case "Unfreeze":
		in.unfreezeAll()
		return nil
	case "CheckFrozen":
		return nil
	case "Shares":
		return Boolc(in.sharesForced(args[0], args[1]))
	case "Catch":
		return in.catch(fr, args[0], pos)
	case "Symbolic":
		return Boolc(true)
	case "Go":
		in.spawnValue("vf.Go", args[0], nil, pos)
		if in.cfg.Concurrent {
			in.sched.schedule("vf.Go", nil)
		}
		return nil
	case "Yield":
		if in.cfg.Concurrent {
			in.sched.schedule("vf.Yield", nil)
		}
		return nil
	case "TimerFires":
		return ci(in.sched.timerFires)
	case "WaitAll":
		s := in.sched
		me := s.cur
		s.schedule("vf.WaitAll", func() bool {
			for _, g := range s.gs {
				if g != me && !g.done && !g.daemon {
					return false
				}
			}
			return true
		})
		return nil
	case "Daemon":
		// marks goroutines started by f as daemons (not awaited by WaitAll, e.g. the expiry loop)
		before := len(in.sched.gs)
		in.callValue(fr, args[0], nil, pos)
		for _, g := range in.sched.gs[before:] {
			g.daemon = true
		}
		return nil
	case "Register":
		return nil
	case "EqualValues":
		return in.structEq(args[0], args[1])
	case "ExactCmp":
		return in.exactCmp(args[0], args[1])
	case "RunUntilCrash":
		return in.runUntilCrash(fr, args[0], pos)
	case "FSTrace":
		return StrV(strings.Join(in.fs().trace, "; "))
	case "FS":
		return in.fsCall(fr, args, pos)
	}
	in.fail("unsupported", "vf."+name)
	return nil
}

func splitCSVKeep(s string) []string {
	// like splitCSV but keeps empty strings ("a,,b" has an empty member; "" is one empty string)
	var r []string
	cur := ""
	for i := 0; i < len(s); i++ {
		if s[i] == ',' {
			r = append(r, cur)
			cur = ""
		} else {
			cur += string(s[i])
		}
	}
	return append(r, cur)
}

func (in *Interp) assertTerm(c *Term, msg string, pos token.Pos) {
	in.asserts++
	where := msg + " [" + in.at(pos) + "]"
	if c.Const {
		if !c.B {
			in.fail("assert", where)
		}
		return
	}
	if in.known[c.String()] {
		return
	}
	in.sol.Push()
	in.sol.Assert(Not(c))
	r := in.sol.Check()
	in.sol.Pop()
	switch r {
	case "unsat":
		in.assume(c)
	case "sat":
		// make the violating model the path's model
		in.assume(Not(c))
		in.fail("assert", where)
	default:
		in.fail("unknown", "solver returned "+r+" on assertion: "+where)
	}
}

func (in *Interp) sharesForced(a, b Value) bool {
	for {
		la := map[*Lazy]bool{}
		wa := newWalker()
		wa.lazy = func(l *Lazy) { la[l] = true }
		wa.walk(a)
		var shared []*Lazy
		wb := newWalker()
		wb.lazy = func(l *Lazy) {
			if la[l] {
				shared = append(shared, l)
			}
		}
		wb.walk(b)
		if len(shared) == 0 {
			break
		}
		for _, l := range shared {
			in.force(l)
		}
	}
	r, _ := in.shares(a, b)
	return r
}

// catch runs f and reports whether it panicked: returns (panicked bool, message string).
func (in *Interp) catch(fr *frame, f Value, pos token.Pos) (res Value) {
	depth := in.depth
	defer func() {
		r := recover()
		if r == nil {
			return
		}
		gp, ok := r.(*goPanic)
		if !ok {
			panic(r)
		}
		in.depth = depth
		res = Tuple{Boolc(true), StrV(gp.msg + " at " + gp.pos)}
	}()
	in.callValue(fr, f, nil, pos)
	return Tuple{Boolc(false), StrV("")}
}

// exactCmp compares two numbers (int32, int64, float64 in interfaces) by exact mathematical value
// through an embedding into binary128 (every int64 and every double is representable); NaN is
// lowest and equal to itself. Returns a 64-bit term in {-1,0,1}.
func (in *Interp) exactCmp(a, b Value) *Term {
	fa, fb := in.force(a), in.force(b)
	ta, na := in.toF128(fa)
	tb, nb := in.toF128(fb)
	lt := app(SBool, 0, "fp.lt", ta, tb)
	gt := app(SBool, 0, "fp.gt", ta, tb)
	// NaN handling
	return Ite(And(na, nb), ci(0), Ite(na, ci(-1), Ite(nb, ci(1), Ite(lt, ci(-1), Ite(gt, ci(1), ci(0))))))
}

func (in *Interp) toF128(v *Iface) (*Term, *Term) {
	if v.T == nil {
		in.fail("unsupported", "ExactCmp of nil")
	}
	b, ok := v.T.Underlying().(*types.Basic)
	if !ok {
		in.fail("unsupported", "ExactCmp of "+v.T.String())
	}
	t := v.V.(*Term)
	switch b.Kind() {
	case types.Int32, types.Int64:
		return &Term{Kind: SFP64, S: fmt.Sprintf("((_ to_fp 15 113) RNE %s)", t)}, Boolc(false)
	case types.Float64:
		return &Term{Kind: SFP64, S: fmt.Sprintf("((_ to_fp 15 113) RNE %s)", t)}, FPIsNaN(t)
	}
	in.fail("unsupported", "ExactCmp of "+v.T.String())
	return nil, nil
}
