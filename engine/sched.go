package gosym

import (
	"fmt"
	"go/token"
	"go/types"

	"golang.org/x/tools/go/ssa"
)

// Goroutines of the interpreted program are real Go goroutines of which exactly one runs at a time.
// Control is handed over only at synchronisation operations (lock, channel operation, select,
// go statement, goroutine end, WaitGroup.Wait, vf.Yield). In concurrent harnesses the decision which
// enabled goroutine runs next is a symbolic choice (`sched.k`), so the exploration covers every
// interleaving at that granularity; in sequential harnesses the running goroutine keeps running
// until it blocks.

type G struct {
	id      int
	name    string
	resume  chan struct{}
	done    bool
	started bool
	canRun  func() bool // nil: runnable
	waitMsg string
	daemon  bool
}

type ChanV struct {
	buf    []Value
	cap    int
	closed bool
	elem   types.Type
	timer  *timerState
	// goroutines currently blocked receiving from this channel (rendezvous for unbuffered sends)
	recvWaiting int
}

type timerState struct {
	fired   bool
	stopped bool
	ticker  bool
	fires   int // a ticker fires at most twice per path (bound): otherwise a blocked program would be kept alive forever
}

type mutexState struct {
	writer  *G
	readers int
}

type scheduler struct {
	in       *Interp
	gs       []*G
	cur      *G
	dead     bool // path is over: sleeping goroutines must unwind
	end      interface{}
	mutexes  map[*Value]*mutexState
	wgs      map[*Value]int
	preempts int
	seq      int
	mainDone chan struct{}
	timers   []*ChanV
	// timerFires counts one-shot timers (time.After / NewTimer) that had to fire because every
	// goroutine was blocked: "somebody waited for a timeout" (vf.TimerFires)
	timerFires int
	trace      []int
}

type pathAbort struct{}

func newScheduler(in *Interp) *scheduler {
	s := &scheduler{in: in, mutexes: map[*Value]*mutexState{}, wgs: map[*Value]int{}}
	g := &G{id: 0, name: "main", resume: make(chan struct{}, 1), started: true}
	s.gs = []*G{g}
	s.cur = g
	return s
}

func (s *scheduler) enabled() []*G {
	var r []*G
	for _, g := range s.gs {
		if g.done {
			continue
		}
		if g.canRun == nil || g.canRun() {
			r = append(r, g)
		}
	}
	return r
}

// schedule is called by the running goroutine at a scheduling point. If block is non-nil the
// goroutine cannot continue until block() is true.
func (s *scheduler) schedule(why string, block func() bool) {
	in := s.in
	cur := s.cur
	cur.canRun = block
	cur.waitMsg = why
	for {
		en := s.enabled()
		if len(en) == 0 {
			// time passes only when every goroutine is blocked: fire one pending timer
			if s.fireTimer() {
				continue
			}
			msg := "all goroutines blocked:"
			for _, g := range s.gs {
				if !g.done {
					msg += fmt.Sprintf(" [%s: %s]", g.name, g.waitMsg)
				}
			}
			in.fail("deadlock", msg)
		}
		var next *G
		if !in.cfg.Concurrent {
			// sequential: keep running the current goroutine if possible, else lowest id
			next = en[0]
			for _, g := range en {
				if g == cur {
					next = cur
				}
			}
		} else {
			curEnabled := false
			for _, g := range en {
				if g == cur {
					curEnabled = true
				}
			}
			pb := in.cfg.Params["preempt"]
			if curEnabled && pb > 0 && s.preempts >= pb {
				next = cur
			} else if len(en) == 1 {
				next = en[0]
			} else {
				s.seq++
				k := in.chooseN(fmt.Sprintf("$sched%d", s.seq), len(en))
				next = en[k]
				if curEnabled && next != cur {
					s.preempts++
				}
			}
		}
		s.trace = append(s.trace, next.id)
		if next != cur {
			s.transfer(cur, next)
		}
		// we are running again; block condition must hold now (we were chosen among enabled)
		if cur.canRun == nil || cur.canRun() {
			cur.canRun = nil
			cur.waitMsg = ""
			return
		}
	}
}

func (s *scheduler) fireTimer() bool {
	for _, c := range s.timers {
		t := c.timer
		if t.stopped || (t.fired && !t.ticker) || t.fires >= 2 {
			continue
		}
		if len(c.buf) >= 1 {
			continue
		}
		// only fire timers somebody is waiting for
		t.fired = true
		c.buf = append(c.buf, Struct{BVc(64, 0)})
		if len(s.enabled()) > 0 {
			t.fires++
			if !t.ticker {
				s.timerFires++
			}
			return true
		}
		c.buf = c.buf[:0]
		t.fired = false
	}
	return false
}

func (s *scheduler) transfer(cur, next *G) {
	s.cur = next
	if !next.started {
		panic("transfer to unstarted goroutine")
	}
	next.resume <- struct{}{}
	<-cur.resume
	if s.dead {
		if cur.id == 0 && s.end != nil {
			panic(s.end)
		}
		panic(pathAbort{})
	}
	s.cur = cur
}

// spawn starts a new goroutine running f; it does not run until scheduled.
func (s *scheduler) spawn(name string, daemon bool, f func()) *G {
	g := &G{id: len(s.gs), name: fmt.Sprintf("g%d:%s", len(s.gs), name), resume: make(chan struct{}, 1), started: true, daemon: daemon}
	s.gs = append(s.gs, g)
	go func() {
		<-g.resume
		if s.dead {
			return
		}
		defer func() {
			r := recover()
			if _, ok := r.(pathAbort); ok {
				return
			}
			if r != nil {
				// path end (or uncaught Go panic) inside a goroutine: hand it to main
				if gp, ok := r.(*goPanic); ok {
					r = pathEnd{"panic", "in goroutine " + g.name + ": " + gp.msg + " at " + gp.pos}
				}
				s.finish(r)
				return
			}
			g.done = true
			// goroutine finished: hand over to somebody else
			s.exitSchedule(g)
		}()
		f()
	}()
	return g
}

// exitSchedule passes control on when goroutine g has finished.
func (s *scheduler) exitSchedule(g *G) {
	defer func() {
		r := recover()
		if _, ok := r.(pathAbort); ok {
			return
		}
		if r != nil {
			s.finish(r)
		}
	}()
	in := s.in
	for {
		en := s.enabled()
		if len(en) == 0 {
			if s.fireTimer() {
				continue
			}
			in.fail("deadlock", "goroutine finished and all others are blocked")
		}
		next := en[0]
		if in.cfg.Concurrent && len(en) > 1 {
			s.seq++
			next = en[in.chooseN(fmt.Sprintf("$sched%d", s.seq), len(en))]
		}
		s.trace = append(s.trace, next.id)
		s.cur = next
		next.resume <- struct{}{}
		return
	}
}

// finish ends the path from a non-main goroutine: wake main with the outcome.
func (s *scheduler) finish(r interface{}) {
	s.dead = true
	s.end = r
	main := s.gs[0]
	s.cur = main
	main.resume <- struct{}{}
}

// shutdown releases every sleeping goroutine at the end of a path.
func (s *scheduler) shutdown() {
	s.dead = true
	for _, g := range s.gs[1:] {
		if !g.done {
			select {
			case g.resume <- struct{}{}:
			default:
				// goroutine is not waiting (already unwinding)
			}
		}
	}
}

// ---------- go statement ----------

func (in *Interp) goStmt(fr *frame, i *ssa.Go) {
	c := i.Call
	var fv Value
	var args []Value
	if c.IsInvoke() {
		fn, recv := in.lookupMethod(in.get(fr, c.Value), c.Method, i.Pos())
		fv = &Closure{Fn: fn}
		args = append(args, recv)
	} else {
		fv = in.get(fr, c.Value)
	}
	for _, a := range c.Args {
		args = append(args, in.get(fr, a))
	}
	name := "func"
	if cl, ok := fv.(*Closure); ok {
		name = cl.Fn.Name()
	}
	in.spawnValue(name, fv, args, i.Pos())
	if in.cfg.Concurrent {
		in.sched.schedule("go", nil)
	}
}

func (in *Interp) spawnValue(name string, fv Value, args []Value, pos token.Pos) *G {
	var g *G
	g = in.sched.spawn(name, false, func() {
		root := &frame{g: g}
		in.callValue(root, fv, args, pos)
	})
	return g
}

// ---------- mutexes ----------

func (in *Interp) mstate(p *Value) *mutexState {
	m := in.sched.mutexes[p]
	if m == nil {
		m = &mutexState{}
		in.sched.mutexes[p] = m
	}
	return m
}

func (in *Interp) lock(fr *frame, p *Value, write bool, pos token.Pos) {
	m := in.mstate(p)
	s := in.sched
	free := func() bool {
		if write {
			return m.writer == nil && m.readers == 0
		}
		return m.writer == nil
	}
	if len(s.gs) > 1 || !free() {
		s.schedule(fmt.Sprintf("lock at %s", in.at(pos)), free)
	}
	if write {
		m.writer = s.cur
	} else {
		m.readers++
	}
}

func (in *Interp) tryLock(fr *frame, p *Value, write bool) bool {
	m := in.mstate(p)
	if m.writer == nil && m.readers == 0 {
		m.writer = in.sched.cur
		return true
	}
	return false
}

func (in *Interp) unlock(fr *frame, p *Value, write bool, pos token.Pos) {
	m := in.mstate(p)
	if write {
		if m.writer == nil {
			in.fail("panic", "fatal error: sync: unlock of unlocked mutex at "+in.at(pos))
		}
		m.writer = nil
	} else {
		if m.readers == 0 {
			in.fail("panic", "fatal error: sync: RUnlock of unlocked RWMutex at "+in.at(pos))
		}
		m.readers--
	}
}

func (in *Interp) waitGroup(fr *frame, full string, args []Value, pos token.Pos) Value {
	p := args[0].(*Value)
	s := in.sched
	switch full {
	case "(*sync.WaitGroup).Add":
		s.wgs[p] += in.cint(args[1])
		if s.wgs[p] < 0 {
			in.goPanicf(pos, "sync: negative WaitGroup counter")
		}
	case "(*sync.WaitGroup).Done":
		s.wgs[p]--
		if s.wgs[p] < 0 {
			in.goPanicf(pos, "sync: negative WaitGroup counter")
		}
	case "(*sync.WaitGroup).Wait":
		s.schedule("WaitGroup.Wait at "+in.at(pos), func() bool { return s.wgs[p] == 0 })
	}
	return nil
}

// ---------- channels ----------

func (in *Interp) asChan(v Value, pos token.Pos) *ChanV {
	switch c := v.(type) {
	case *ChanV:
		return c
	case NilPtr:
		return nil
	}
	in.fail("unsupported", fmt.Sprintf("channel value %T", v))
	return nil
}

func (c *ChanV) canRecv() bool { return c != nil && (len(c.buf) > 0 || c.closed) }
func (c *ChanV) canSend() bool {
	if c == nil {
		return false
	}
	if c.cap == 0 {
		// unbuffered: a send completes only by handing the value to a waiting receiver
		return c.closed || (c.recvWaiting > 0 && len(c.buf) == 0)
	}
	return c.closed || len(c.buf) < c.cap
}

func (in *Interp) chanSend(fr *frame, cv Value, x Value, pos token.Pos) {
	c := in.asChan(cv, pos)
	s := in.sched
	if len(s.gs) > 1 || !c.canSend() {
		s.schedule("chan send at "+in.at(pos), func() bool { return c.canSend() })
	}
	if c.closed {
		in.goPanicf(pos, "send on closed channel")
	}
	c.buf = append(c.buf, copyVal(x))
}

func (in *Interp) chanRecv(fr *frame, cv Value, commaOk bool, t types.Type, pos token.Pos) Value {
	c := in.asChan(cv, pos)
	s := in.sched
	if len(s.gs) > 1 || !c.canRecv() {
		if c != nil {
			c.recvWaiting++
		}
		s.schedule("chan receive at "+in.at(pos), func() bool { return c.canRecv() })
		if c != nil {
			c.recvWaiting--
		}
	}
	var v Value
	ok := true
	if len(c.buf) > 0 {
		v = c.buf[0]
		c.buf = c.buf[1:]
	} else {
		ok = false
		v = zero(c.elem)
	}
	if commaOk {
		return Tuple{v, Boolc(ok)}
	}
	return v
}

func (in *Interp) chanClose(fr *frame, cv Value, pos token.Pos) {
	c := in.asChan(cv, pos)
	if c == nil {
		in.goPanicf(pos, "close of nil channel")
	}
	if c.closed {
		in.goPanicf(pos, "close of closed channel")
	}
	c.closed = true
}

func (in *Interp) selectStmt(fr *frame, i *ssa.Select) Value {
	s := in.sched
	type st struct {
		c    *ChanV
		send bool
		val  Value
	}
	states := make([]st, len(i.States))
	for k, ss := range i.States {
		states[k].c = in.asChan(in.get(fr, ss.Chan), i.Pos())
		states[k].send = ss.Dir == types.SendOnly
		if states[k].send {
			states[k].val = in.get(fr, ss.Send)
		}
	}
	ready := func() []int {
		var r []int
		for k, x := range states {
			if x.c == nil {
				continue
			}
			if x.send && x.c.canSend() || !x.send && x.c.canRecv() {
				r = append(r, k)
			}
		}
		return r
	}
	if i.Blocking {
		if len(s.gs) > 1 || len(ready()) == 0 {
			for _, x := range states {
				if !x.send && x.c != nil {
					x.c.recvWaiting++
				}
			}
			s.schedule("select at "+in.at(i.Pos()), func() bool { return len(ready()) > 0 })
			for _, x := range states {
				if !x.send && x.c != nil {
					x.c.recvWaiting--
				}
			}
		}
	} else if in.cfg.Concurrent && len(s.gs) > 1 {
		s.schedule("select(default) at "+in.at(i.Pos()), nil)
	}
	r := ready()
	idx := -1
	if len(r) == 1 {
		idx = r[0]
	} else if len(r) > 1 {
		// Go picks a ready case at random: fork over the ready cases
		s.seq++
		idx = r[in.chooseN(fmt.Sprintf("$select%d", s.seq), len(r))]
	}
	// result tuple: (index, recvOk, recv values...)
	res := Tuple{ci(idx), Boolc(false)}
	for k, ss := range i.States {
		if ss.Dir != types.RecvOnly {
			continue
		}
		var v Value = zero(ss.Chan.Type().Underlying().(*types.Chan).Elem())
		if k == idx {
			c := states[k].c
			if len(c.buf) > 0 {
				v = c.buf[0]
				c.buf = c.buf[1:]
				res[1] = Boolc(true)
			}
		}
		res = append(res, v)
	}
	if idx >= 0 && states[idx].send {
		c := states[idx].c
		if c.closed {
			in.goPanicf(i.Pos(), "send on closed channel")
		}
		c.buf = append(c.buf, copyVal(states[idx].val))
	}
	return res
}
